//! One driver per parser: runs the real parser over a `Read` source through the public streaming
//! API and reports every item plus the final outcome.

use std::io::{BufRead, BufReader, ErrorKind, Read};

use flussab::text::LineReader;
use flussab::DeferredReader;

use crate::crash::{self, PanicInfo};

#[derive(Clone, Copy, PartialEq, Eq, Debug, Hash)]
pub enum PKind {
    Cnf,
    Wcnf,
    Gcnf,
    SatLog,
    Aag,
    Aig,
    Btor2,
}

pub const ALL_KINDS: [PKind; 7] = [
    PKind::Cnf,
    PKind::Wcnf,
    PKind::Gcnf,
    PKind::SatLog,
    PKind::Aag,
    PKind::Aig,
    PKind::Btor2,
];

impl PKind {
    pub fn name(self) -> &'static str {
        match self {
            PKind::Cnf => "cnf",
            PKind::Wcnf => "wcnf",
            PKind::Gcnf => "gcnf",
            PKind::SatLog => "satlog",
            PKind::Aag => "aag",
            PKind::Aig => "aig",
            PKind::Btor2 => "btor2",
        }
    }
    pub fn parse(s: &str) -> Option<PKind> {
        ALL_KINDS.iter().copied().find(|k| k.name() == s)
    }
    pub fn is_dimacs(self) -> bool {
        matches!(self, PKind::Cnf | PKind::Wcnf | PKind::Gcnf | PKind::SatLog)
    }
    pub fn is_aiger(self) -> bool {
        matches!(self, PKind::Aag | PKind::Aig)
    }
}

/// Parser configuration: which parser, which literal type, which config flag.
#[derive(Clone, Copy, PartialEq, Eq, Debug, Hash)]
pub struct PCfg {
    pub kind: PKind,
    /// DIMACS: 0..5 = i8,i16,i32,i64,isize; AIGER: 0..5 = u8,u16,u32,u64,usize; BTOR2: unused
    pub lit: u8,
    /// DIMACS: ignore_header; solver log: ignore_unknown_lines
    pub flag: bool,
    /// AIGER: use `Parser::parse()` instead of the section readers (guarded, see `aiger_counts_small`)
    pub whole: bool,
    /// AIGER section readers: 0 = every section is read to its end; otherwise the caller takes
    /// only `take_limit(section)` items of each section and moves on (the staged API then skips
    /// the rest of the section itself)
    pub early: u16,
}

impl PCfg {
    /// Items the driver takes from AIGER section number `section` before moving on.
    pub fn take_limit(&self, section: u32) -> usize {
        if self.early == 0 {
            return usize::MAX;
        }
        let h = (self.early as u64 + 1).wrapping_mul(0x9e37_79b9_7f4a_7c15) >> (section * 5 % 50);
        match h & 7 {
            0..=2 => usize::MAX,
            k => (k - 3) as usize, // 0..=4 items
        }
    }
    pub fn lit_name(&self) -> &'static str {
        if self.kind.is_aiger() {
            ["u8", "u16", "u32", "u64", "usize"][self.lit as usize % 5]
        } else if self.kind == PKind::Btor2 {
            "-"
        } else {
            ["i8", "i16", "i32", "i64", "isize"][self.lit as usize % 5]
        }
    }
    /// Largest DIMACS variable for the literal type.
    pub fn max_dimacs(&self) -> i128 {
        [
            i8::MAX as i128,
            i16::MAX as i128,
            i32::MAX as i128,
            isize::MAX as i128,
            isize::MAX as i128,
        ][self.lit as usize % 5]
    }
    /// AIGER `MAX_CODE` of the literal type.
    pub fn max_code(&self) -> u128 {
        [
            u8::MAX as u128,
            u16::MAX as u128,
            u32::MAX as u128,
            u64::MAX as u128,
            usize::MAX as u128,
        ][self.lit as usize % 5]
    }
    pub fn encode(&self) -> String {
        format!(
            "{}:{}:{}:{}:{}",
            self.kind.name(),
            self.lit,
            self.flag as u8,
            self.whole as u8,
            self.early
        )
    }
    pub fn decode(s: &str) -> Option<PCfg> {
        let p: Vec<&str> = s.split(':').collect();
        Some(PCfg {
            kind: PKind::parse(p.first()?)?,
            lit: p.get(1)?.parse().ok()?,
            flag: *p.get(2)? == "1",
            whole: *p.get(3)? == "1",
            early: p.get(4).and_then(|e| e.parse().ok()).unwrap_or(0),
        })
    }
    pub fn describe(&self) -> String {
        format!(
            "{}<{}>{}{}",
            self.kind.name(),
            self.lit_name(),
            if self.flag {
                if self.kind == PKind::SatLog {
                    " ignore_unknown_lines"
                } else if self.kind.is_dimacs() {
                    " ignore_header"
                } else {
                    ""
                }
            } else {
                ""
            },
            if self.whole {
                " parse()".to_string()
            } else if self.early != 0 {
                format!(" early-exit pattern {}", self.early)
            } else {
                String::new()
            }
        )
    }
}

#[derive(Clone, Copy, PartialEq, Eq, Debug, Hash)]
pub enum Via {
    FromRead,
    Boxed,
    BufReader { cap: usize },
    /// `from_read`, then the junk prefix is consumed through the `DeferredReader` itself
    /// (request/advance) before it is wrapped: the parser starts on an already advanced reader.
    Advanced,
}

/// How the parser is constructed.
#[derive(Clone, Copy, PartialEq, Eq, Debug, Hash)]
pub enum Ctor {
    /// `DeferredReader` constructor (+ optional `set_chunk_size`), then `Parser::new(LineReader::new(r))`
    Reader { via: Via, chunk: Option<usize> },
    ParserFromRead,
    ParserBoxed,
    ParserBufReader { cap: usize },
}

impl Ctor {
    pub fn default_one_shot() -> Ctor {
        Ctor::Reader {
            via: Via::FromRead,
            chunk: None,
        }
    }
    pub fn uses_bufreader(&self) -> bool {
        matches!(
            self,
            Ctor::Reader {
                via: Via::BufReader { .. } | Via::Advanced,
                ..
            } | Ctor::ParserBufReader { .. }
        )
    }
    pub fn encode(&self) -> String {
        match self {
            Ctor::Reader { via, chunk } => format!(
                "reader:{}:{}",
                match via {
                    Via::FromRead => "read".to_string(),
                    Via::Boxed => "boxed".to_string(),
                    Via::BufReader { cap } => format!("buf{cap}"),
                    Via::Advanced => "adv".to_string(),
                },
                chunk.map_or("-".to_string(), |c| c.to_string())
            ),
            Ctor::ParserFromRead => "parser:read".into(),
            Ctor::ParserBoxed => "parser:boxed".into(),
            Ctor::ParserBufReader { cap } => format!("parser:buf{cap}"),
        }
    }
    pub fn decode(s: &str) -> Option<Ctor> {
        let p: Vec<&str> = s.split(':').collect();
        let via = |v: &str| -> Option<Via> {
            Some(match v {
                "read" => Via::FromRead,
                "boxed" => Via::Boxed,
                "adv" => Via::Advanced,
                b => Via::BufReader {
                    cap: b.strip_prefix("buf")?.parse().ok()?,
                },
            })
        };
        match *p.first()? {
            "reader" => Some(Ctor::Reader {
                via: via(p.get(1)?)?,
                chunk: match *p.get(2)? {
                    "-" => None,
                    c => Some(c.parse().ok()?),
                },
            }),
            "parser" => Some(match via(p.get(1)?)? {
                Via::FromRead => Ctor::ParserFromRead,
                Via::Boxed => Ctor::ParserBoxed,
                Via::BufReader { cap } => Ctor::ParserBufReader { cap },
                Via::Advanced => return None,
            }),
            _ => None,
        }
    }
}

#[derive(Clone, Debug, PartialEq, Eq)]
pub enum Outcome {
    CleanEnd,
    Syntax {
        line: usize,
        column: usize,
        msg: String,
    },
    Io {
        kind: ErrorKind,
        msg: String,
        /// offset carried by the typed payload of a simulated failure, if the error has one
        payload: Option<usize>,
    },
    Panic(PanicInfo),
}

impl Outcome {
    pub fn short(&self) -> String {
        match self {
            Outcome::CleanEnd => "clean end".into(),
            Outcome::Syntax { line, column, msg } => format!("syntax error {line}:{column}: {msg}"),
            Outcome::Io { kind, msg, .. } => format!("io error {kind:?}: {msg}"),
            Outcome::Panic(p) => format!("PANIC {}", p.short()),
        }
    }
}

macro_rules! conv_err {
    ($name:ident, $inner:path) => {
        fn $name(e: Box<$inner>) -> Outcome {
            use $inner as I;
            match *e {
                I::SyntaxError(s) => Outcome::Syntax {
                    line: s.location.line,
                    column: s.location.column,
                    msg: s.msg,
                },
                I::IoError(e) => Outcome::Io {
                    kind: e.kind(),
                    msg: e.to_string(),
                    payload: crate::source::payload_of(&e).or(crate::source::lib_payload_of(&e).map(|c| usize::MAX - (-c) as usize)),
                },
            }
        }
    };
}
conv_err!(conv_cnf, flussab_cnf::InnerParseError);
conv_err!(conv_aiger, flussab_aiger::InnerParseError);

fn conv_btor2(e: flussab_btor2::ParseError) -> Outcome {
    use flussab_btor2::InnerParseError as I;
    match *e {
        I::SyntaxError(s) => Outcome::Syntax {
            line: s.location.line,
            column: s.location.column,
            msg: s.msg,
        },
        I::IoError(e) => Outcome::Io {
            kind: e.kind(),
            msg: e.to_string(),
            payload: crate::source::payload_of(&e).or(crate::source::lib_payload_of(&e).map(|c| usize::MAX - (-c) as usize)),
        },
    }
}

/// Consumes exactly `pre` bytes (the junk prefix) from the BufReader before it is handed over.
fn make_bufreader<R: Read>(src: R, cap: usize, pre: usize) -> BufReader<R> {
    let mut br = BufReader::with_capacity(cap.max(1), src);
    let mut left = pre;
    let mut guard = 0;
    while left > 0 && guard < 10_000_000 {
        guard += 1;
        match br.fill_buf() {
            Ok(b) if b.is_empty() => break,
            Ok(b) => {
                let n = b.len().min(left);
                br.consume(n);
                left -= n;
            }
            Err(_) => {}
        }
    }
    br
}

fn make_reader<'a, R: Read + 'a>(via: &Via, chunk: &Option<usize>, src: R, pre: usize) -> DeferredReader<'a> {
    let mut r = match via {
        Via::FromRead => DeferredReader::from_read(src),
        Via::Boxed => DeferredReader::from_boxed_dyn_read(Box::new(src)),
        Via::BufReader { cap } => DeferredReader::from_buf_reader(make_bufreader(src, *cap, pre)),
        Via::Advanced => DeferredReader::from_read(src),
    };
    if let Some(c) = chunk {
        r.set_chunk_size((*c).max(1));
    }
    if matches!(via, Via::Advanced) {
        // the caller read a prefix of the stream through the reader before handing it to the
        // parser (a container format, a magic number, ...)
        let mut left = pre;
        if pre % 2 == 1 {
            // sniffing: the caller first asked for much more than the prefix (and possibly than
            // the source has: the reader may then already be complete, with an error parked)
            let _ = r.request(pre + 512);
        }
        while left > 0 {
            let n = r.request(left.min(7)).len().min(left);
            if n == 0 {
                break;
            }
            r.advance(n);
            left -= n;
        }
    }
    r
}

macro_rules! build_parser {
    ($P:ty, $cfg:expr, $ctor:expr, $src:expr, $pre:expr) => {
        match $ctor {
            Ctor::Reader { via, chunk } => {
                <$P>::new(LineReader::new(make_reader(via, chunk, $src, $pre)), $cfg)
            }
            Ctor::ParserFromRead => <$P>::from_read($src, $cfg),
            Ctor::ParserBoxed => <$P>::from_boxed_dyn_read(Box::new($src), $cfg),
            Ctor::ParserBufReader { cap } => {
                <$P>::from_buf_reader(make_bufreader($src, *cap, $pre), $cfg)
            }
        }
    };
}

/// Kind of a transcript entry.
/// `ITEM`: an item handed out by the streaming API. `ABSENT`: the rendering of something that is
/// not there (no header, no comment section) -- part of the transcript, but not an item.
/// `AT_EOF`: an item that by its nature is only complete at end of input (AIGER comment section).
pub const ITEM: u8 = 0;
pub const ABSENT: u8 = 1;
pub const AT_EOF: u8 = 2;

pub type ItemSink<'s> = dyn FnMut(u8, &dyn Fn() -> String) + 's;

macro_rules! tri {
    ($e:expr, $conv:ident) => {
        match $e {
            Ok(v) => v,
            Err(e) => return $conv(e),
        }
    };
}

fn drive_cnf<L: flussab_cnf::Dimacs + std::fmt::Debug, R: Read>(
    cfg: &PCfg,
    ctor: &Ctor,
    src: R,
    pre: usize,
    on: &mut ItemSink,
) -> Outcome {
    use flussab_cnf::cnf::{Config, Parser};
    let c = Config::default().ignore_header(cfg.flag);
    let mut p = tri!(build_parser!(Parser<L>, c, ctor, src, pre), conv_cnf);
    let h = p.header();
    on(if h.is_some() { ITEM } else { ABSENT }, &|| format!("header {h:?}"));
    loop {
        match p.next_clause() {
            Ok(Some(cl)) => on(ITEM, &|| format!("clause {cl:?}")),
            Ok(None) => return Outcome::CleanEnd,
            Err(e) => return conv_cnf(e),
        }
    }
}

fn drive_wcnf<L: flussab_cnf::Dimacs + std::fmt::Debug, R: Read>(
    cfg: &PCfg,
    ctor: &Ctor,
    src: R,
    pre: usize,
    on: &mut ItemSink,
) -> Outcome {
    use flussab_cnf::wcnf::{Config, Parser};
    let c = Config::default().ignore_header(cfg.flag);
    let mut p = tri!(build_parser!(Parser<L>, c, ctor, src, pre), conv_cnf);
    let h = p.header();
    on(if h.is_some() { ITEM } else { ABSENT }, &|| format!("header {h:?}"));
    loop {
        match p.next_clause() {
            Ok(Some(cl)) => on(ITEM, &|| format!("clause {cl:?}")),
            Ok(None) => return Outcome::CleanEnd,
            Err(e) => return conv_cnf(e),
        }
    }
}

fn drive_gcnf<L: flussab_cnf::Dimacs + std::fmt::Debug, R: Read>(
    cfg: &PCfg,
    ctor: &Ctor,
    src: R,
    pre: usize,
    on: &mut ItemSink,
) -> Outcome {
    use flussab_cnf::gcnf::{Config, Parser};
    let c = Config::default().ignore_header(cfg.flag);
    let mut p = tri!(build_parser!(Parser<L>, c, ctor, src, pre), conv_cnf);
    let h = p.header();
    on(if h.is_some() { ITEM } else { ABSENT }, &|| format!("header {h:?}"));
    loop {
        match p.next_clause() {
            Ok(Some(cl)) => on(ITEM, &|| format!("clause {cl:?}")),
            Ok(None) => return Outcome::CleanEnd,
            Err(e) => return conv_cnf(e),
        }
    }
}

fn drive_satlog<L: flussab_cnf::Dimacs + std::fmt::Debug, R: Read>(
    cfg: &PCfg,
    ctor: &Ctor,
    src: R,
    pre: usize,
    on: &mut ItemSink,
) -> Outcome {
    use flussab_cnf::sat_solver_log::{parse_log, Config};
    let c = Config::default().ignore_unknown_lines(cfg.flag);
    // parse_log works on a LineReader; parser-level constructors map to the reader-level ones
    let (via, chunk) = match ctor {
        Ctor::Reader { via, chunk } => (*via, *chunk),
        Ctor::ParserFromRead => (Via::FromRead, None),
        Ctor::ParserBoxed => (Via::Boxed, None),
        Ctor::ParserBufReader { cap } => (Via::BufReader { cap: *cap }, None),
    };
    let mut lr: LineReader = make_reader(&via, &chunk, src, pre).into();
    match parse_log::<L>(&mut lr, c) {
        Ok(log) => {
            on(ITEM, &|| format!("log {log:?}"));
            Outcome::CleanEnd
        }
        Err(e) => conv_cnf(e),
    }
}

macro_rules! aiger_sections_tail {
    ($r:ident, $on:ident, $cfg:ident) => {{
        let mut $r = $r;
        let mut taken = 0usize;
        loop {
            if taken >= $cfg.take_limit(2) {
                break;
            }
            taken += 1;
            match $r.next_output() {
                Ok(Some(x)) => $on(ITEM, &|| format!("output {x:?}")),
                Ok(None) => break,
                Err(e) => return conv_aiger(e),
            }
        }
        let mut $r = tri!($r.bad_state_properties(), conv_aiger);
        let mut taken = 0usize;
        loop {
            if taken >= $cfg.take_limit(3) {
                break;
            }
            taken += 1;
            match $r.next_bad_state_property() {
                Ok(Some(x)) => $on(ITEM, &|| format!("bad {x:?}")),
                Ok(None) => break,
                Err(e) => return conv_aiger(e),
            }
        }
        let mut $r = tri!($r.invariant_constraints(), conv_aiger);
        let mut taken = 0usize;
        loop {
            if taken >= $cfg.take_limit(4) {
                break;
            }
            taken += 1;
            match $r.next_invariant_constraint() {
                Ok(Some(x)) => $on(ITEM, &|| format!("constraint {x:?}")),
                Ok(None) => break,
                Err(e) => return conv_aiger(e),
            }
        }
        let mut $r = tri!($r.justice_properties(), conv_aiger);
        let mut taken = 0usize;
        loop {
            if taken >= $cfg.take_limit(5) {
                break;
            }
            taken += 1;
            match $r.next_justice_property_size() {
                Ok(Some(x)) => $on(ITEM, &|| format!("justice_size {x:?}")),
                Ok(None) => break,
                Err(e) => return conv_aiger(e),
            }
        }
        let mut $r = tri!($r.justice_property_local_fairness_constraints(), conv_aiger);
        let mut taken = 0usize;
        loop {
            if taken >= $cfg.take_limit(6) {
                break;
            }
            taken += 1;
            match $r.next_justice_property_local_fairness_constraint() {
                Ok(Some(x)) => $on(ITEM, &|| format!("justice_lit {x:?}")),
                Ok(None) => break,
                Err(e) => return conv_aiger(e),
            }
        }
        let mut $r = tri!($r.fairness_constraints(), conv_aiger);
        let mut taken = 0usize;
        loop {
            if taken >= $cfg.take_limit(7) {
                break;
            }
            taken += 1;
            match $r.next_fairness_constraint() {
                Ok(Some(x)) => $on(ITEM, &|| format!("fairness {x:?}")),
                Ok(None) => break,
                Err(e) => return conv_aiger(e),
            }
        }
        let mut $r = tri!($r.and_gates(), conv_aiger);
        let mut taken = 0usize;
        loop {
            if taken >= $cfg.take_limit(8) {
                break;
            }
            taken += 1;
            match $r.next_and_gate() {
                Ok(Some(x)) => $on(ITEM, &|| format!("and {x:?}")),
                Ok(None) => break,
                Err(e) => return conv_aiger(e),
            }
        }
        let mut $r = tri!($r.symbols(), conv_aiger);
        let mut taken = 0usize;
        loop {
            if taken >= $cfg.take_limit(9) {
                break;
            }
            taken += 1;
            match $r.next_symbol() {
                Ok(Some(x)) => $on(ITEM, &|| format!("symbol {x:?}")),
                Ok(None) => break,
                Err(e) => return conv_aiger(e),
            }
        }
        match $r.comment() {
            Ok(c) => {
                $on(if c.is_some() { AT_EOF } else { ABSENT }, &|| format!("comment {c:?}"));
                Outcome::CleanEnd
            }
            Err(e) => conv_aiger(e),
        }
    }};
}

fn drive_aag<L: flussab_aiger::Lit, R: Read>(
    cfg: &PCfg,
    ctor: &Ctor,
    src: R,
    pre: usize,
    on: &mut ItemSink,
) -> Outcome {
    use flussab_aiger::ascii::{Config, Parser};
    let p = tri!(
        build_parser!(Parser<L>, Config::default(), ctor, src, pre),
        conv_aiger
    );
    {
        let h = p.header();
        on(ITEM, &|| format!("header {h:?}"));
    }
    if cfg.whole {
        return match p.parse() {
            Ok(aig) => {
                on(ITEM, &|| format!("aig {aig:?}"));
                Outcome::CleanEnd
            }
            Err(e) => conv_aiger(e),
        };
    }
    let mut r = tri!(p.inputs(), conv_aiger);
    let mut taken = 0usize;
    loop {
        if taken >= cfg.take_limit(0) {
            break;
        }
        taken += 1;
        match r.next_input() {
            Ok(Some(x)) => on(ITEM, &|| format!("input {x:?}")),
            Ok(None) => break,
            Err(e) => return conv_aiger(e),
        }
    }
    let mut r = tri!(r.latches(), conv_aiger);
    let mut taken = 0usize;
    loop {
        if taken >= cfg.take_limit(1) {
            break;
        }
        taken += 1;
        match r.next_latch() {
            Ok(Some(x)) => on(ITEM, &|| format!("latch {x:?}")),
            Ok(None) => break,
            Err(e) => return conv_aiger(e),
        }
    }
    let r = tri!(r.outputs(), conv_aiger);
    aiger_sections_tail!(r, on, cfg)
}

fn drive_aig<L: flussab_aiger::Lit, R: Read>(
    cfg: &PCfg,
    ctor: &Ctor,
    src: R,
    pre: usize,
    on: &mut ItemSink,
) -> Outcome {
    use flussab_aiger::binary::{Config, Parser};
    let p = tri!(
        build_parser!(Parser<L>, Config::default(), ctor, src, pre),
        conv_aiger
    );
    {
        let h = p.header();
        on(ITEM, &|| format!("header {h:?}"));
    }
    if cfg.whole {
        return match p.parse() {
            Ok(aig) => {
                on(ITEM, &|| format!("aig {aig:?}"));
                Outcome::CleanEnd
            }
            Err(e) => conv_aiger(e),
        };
    }
    let mut r = tri!(p.latches(), conv_aiger);
    let mut taken = 0usize;
    loop {
        if taken >= cfg.take_limit(1) {
            break;
        }
        taken += 1;
        match r.next_latch() {
            Ok(Some(x)) => on(ITEM, &|| format!("latch {x:?}")),
            Ok(None) => break,
            Err(e) => return conv_aiger(e),
        }
    }
    let r = tri!(r.outputs(), conv_aiger);
    aiger_sections_tail!(r, on, cfg)
}

fn drive_btor2<R: Read>(ctor: &Ctor, src: R, pre: usize, on: &mut ItemSink) -> Outcome {
    use flussab_btor2::{Config, Parser};
    let mut p = tri!(
        build_parser!(Parser, Config::default(), ctor, src, pre),
        conv_btor2
    );
    loop {
        match p.next_line() {
            Ok(Some(l)) => on(ITEM, &|| format!("line {l:?}")),
            Ok(None) => return Outcome::CleanEnd,
            Err(e) => return conv_btor2(e),
        }
    }
}

/// Runs the parser selected by `cfg` over `src` to its final outcome. Panics are caught.
/// `pre`: number of junk bytes in front of the document that a BufReader constructor consumes
/// before the parser is built (0 for the other constructors).
pub fn drive<R: Read>(cfg: &PCfg, ctor: &Ctor, src: R, pre: usize, on: &mut ItemSink) -> Outcome {
    macro_rules! dimacs {
        ($f:ident) => {
            match cfg.lit % 5 {
                0 => $f::<i8, R>(cfg, ctor, src, pre, on),
                1 => $f::<i16, R>(cfg, ctor, src, pre, on),
                2 => $f::<i32, R>(cfg, ctor, src, pre, on),
                3 => $f::<i64, R>(cfg, ctor, src, pre, on),
                _ => $f::<isize, R>(cfg, ctor, src, pre, on),
            }
        };
    }
    macro_rules! aiger {
        ($f:ident) => {
            match cfg.lit % 5 {
                0 => $f::<u8, R>(cfg, ctor, src, pre, on),
                1 => $f::<u16, R>(cfg, ctor, src, pre, on),
                2 => $f::<u32, R>(cfg, ctor, src, pre, on),
                3 => $f::<u64, R>(cfg, ctor, src, pre, on),
                _ => $f::<usize, R>(cfg, ctor, src, pre, on),
            }
        };
    }
    let r = crash::catch(move || match cfg.kind {
        PKind::Cnf => dimacs!(drive_cnf),
        PKind::Wcnf => dimacs!(drive_wcnf),
        PKind::Gcnf => dimacs!(drive_gcnf),
        PKind::SatLog => dimacs!(drive_satlog),
        PKind::Aag => aiger!(drive_aag),
        PKind::Aig => aiger!(drive_aig),
        PKind::Btor2 => drive_btor2(ctor, src, pre, on),
    });
    match r {
        Ok(o) => o,
        Err(p) => Outcome::Panic(p),
    }
}

/// `Parser::parse()` of the AIGER crates pre-allocates from the header counts; the harness only
/// calls it when every number on the first line is small.
pub fn aiger_counts_small(doc: &[u8]) -> bool {
    let first = doc.split(|&b| b == b'\n').next().unwrap_or(&[]);
    let mut run = 0usize;
    let mut val: u64 = 0;
    for &b in first.iter().chain(std::iter::once(&b' ')) {
        if b.is_ascii_digit() {
            run += 1;
            val = val.saturating_mul(10).saturating_add((b - b'0') as u64);
        } else {
            if run > 7 || val > 1_000_000 {
                return false;
            }
            run = 0;
            val = 0;
        }
    }
    true
}

/// Transcript: everything a parser run returned, rendered canonically.
#[derive(Clone, Debug, PartialEq, Eq)]
pub struct Transcript {
    pub items: Vec<String>,
    pub kinds: Vec<u8>,
    /// number of `ITEM` entries
    pub counted: usize,
    pub outcome: Outcome,
}

impl Transcript {
    /// The items in the sense of C04: everything that was really handed out.
    pub fn handed_out(&self) -> Vec<&String> {
        self.items
            .iter()
            .zip(self.kinds.iter())
            .filter(|(_, &k)| k != ABSENT)
            .map(|(i, _)| i)
            .collect()
    }
}

pub fn transcript<R: Read>(cfg: &PCfg, ctor: &Ctor, src: R, pre: usize) -> Transcript {
    let mut items = vec![];
    let mut kinds = vec![];
    let mut counted = 0;
    let outcome = drive(cfg, ctor, src, pre, &mut |kind, f| {
        if kind == ITEM {
            counted += 1;
        }
        kinds.push(kind);
        items.push(f());
    });
    Transcript {
        items,
        kinds,
        counted,
        outcome,
    }
}
