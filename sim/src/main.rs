//! flussab-sim: deterministic simulation with fault injection for jix/flussab.
//!
//! Commands:
//!   check  <PROPERTY> <quick|thorough>          orchestrate all components and builds, write evidence
//!   part   <COMPONENT> <tier> <seed> <outfile>  run one component in this build (child of `check`)
//!   replay <file>                               execute the explicit case of a replay file
//!   selftest                                    determinism self-test (1 worker vs 16 workers)

#![allow(clippy::type_complexity)]
#![allow(unexpected_cfgs)]

mod alloc;
mod crash;
mod drive;
mod framework;
mod gen;
mod json;
mod props;
mod rng;
mod sink;
mod source;

use std::process::{exit, Command};

use framework::{
    build_name, counters_json, minimise, replay, replay_kv, search, Known, Opts, Prop, Tier,
    DEFAULT_SEED,
};
use json::{Json, Kv};

#[global_allocator]
static GLOBAL: alloc::Counting = alloc::Counting;

/// Root of the verification tree (`/verif`; a background snapshot sets VERIF_HOME to its own copy).
fn verif_dir() -> String {
    std::env::var("VERIF_HOME").unwrap_or_else(|_| "/verif".to_string())
}

/// Dispatch a component name to its `Prop` implementation.
macro_rules! dispatch {
    ($name:expr, $p:ident => $body:expr) => {
        match $name {
            "C02" => {
                let $p = &props::reader::ReaderProp {
                    mode: props::reader::Mode::C02,
                };
                $body
            }
            "C09r" => {
                let $p = &props::reader::ReaderProp {
                    mode: props::reader::Mode::C09,
                };
                $body
            }
            "C14r" => {
                let $p = &props::reader::ReaderProp {
                    mode: props::reader::Mode::C14,
                };
                $body
            }
            "C01" => {
                let $p = &props::parsers::C01;
                $body
            }
            "C04" => {
                let $p = &props::parsers::C04;
                $body
            }
            "C08" => {
                let $p = &props::locate::C08;
                $body
            }
            "C09p" => {
                let $p = &props::peer::C09Peer;
                $body
            }
            "C13" => {
                let $p = &props::scan::C13;
                $body
            }
            "C13t" => {
                let $p = &props::scan::C13Loop;
                $body
            }
            "C16" => {
                let $p = &props::scan::C16;
                $body
            }
            "C16t" => {
                let $p = &props::scan::C16Loop;
                $body
            }
            "C10" => {
                let $p = &props::stream::C10;
                $body
            }
            "C10r" => {
                let $p = &props::rawstream::RawStream { marathon: false, reads: false };
                $body
            }
            "C09h" => {
                let $p = &props::rawstream::RawStream { marathon: false, reads: true };
                $body
            }
            "C02m" => {
                let $p = &props::rawstream::RawStream { marathon: true, reads: false };
                $body
            }
            "C01g" => {
                let $p = &props::giant::Giant { c04: false };
                $body
            }
            "C04g" => {
                let $p = &props::giant::Giant { c04: true };
                $body
            }
            "C11" => {
                let $p = &props::writer::WriterProp { c14: false };
                $body
            }
            "C14w" => {
                let $p = &props::writer::WriterProp { c14: true };
                $body
            }
            "C14p" => {
                let $p = &props::parsers::MiriParse;
                $body
            }
            "C14s" => {
                let $p = &props::stale::C14Stale;
                $body
            }
            "C14u" => {
                let $p = &props::uninit::MiriUninit;
                $body
            }
            other => {
                eprintln!("unknown component {other}");
                exit(2)
            }
        }
    };
}

/// Components that make up each manifest property.
fn components(property: &str) -> Vec<&'static str> {
    match property {
        "C01" => vec!["C01", "C01g"],
        "C04" => vec!["C04", "C04g"],
        "C02" => vec!["C02", "C02m"],
        "C08" => vec!["C08"],
        "C09" => vec!["C09p", "C09r", "C09h"],
        "C10" => vec!["C10", "C10r"],
        "C11" => vec!["C11"],
        "C13" => vec!["C13", "C13t"],
        "C16" => vec!["C16", "C16t"],
        "C14" => vec!["C14r", "C14w", "C14s"],
        _ => vec![],
    }
}

fn seed_from_env() -> u64 {
    std::env::var("VERIF_SEED")
        .ok()
        .and_then(|s| s.trim().parse::<u64>().ok())
        .unwrap_or(DEFAULT_SEED)
}

fn threads() -> usize {
    std::env::var("VERIF_THREADS")
        .ok()
        .and_then(|s| s.parse().ok())
        .unwrap_or_else(|| {
            std::thread::available_parallelism()
                .map(|n| n.get())
                .unwrap_or(8)
        })
}

fn other_build_exe(build: &str) -> String {
    #[allow(non_snake_case)]
    let VD = verif_dir();
    format!("{VD}/target/{build}/flussab-sim")
}

fn run_part<P: Prop>(p: &P, tier: Tier, seed: u64, outfile: &str) {
    #[allow(non_snake_case)]
    let VD = verif_dir();
    let opts = Opts {
        seed,
        tier,
        threads: threads(),
        runs_override: std::env::var("VERIF_RUNS").ok().and_then(|s| s.parse().ok()),
        determinism_probe: 64,
    };
    let out = search(p, &opts);
    let mut kv = Kv::new();
    kv.put("component", p.id());
    kv.put("build", build_name());
    kv.put("evaluations", out.evaluations);
    kv.put("distinct", out.stats.distinct.len());
    kv.put("distinct_saturated", out.stats.distinct_saturated);
    kv.put("nontrivial", out.stats.nontrivial);
    kv.put("steps", out.stats.steps);
    kv.put("digest", out.stats.digest);
    kv.put("wall_s", format!("{:.3}", out.wall_s));
    for (k, v) in &out.stats.counters {
        kv.put(&format!("counter.{k}"), v);
    }
    for (k, v) in &out.stats.maxes {
        kv.put(&format!("counter.max.{k}"), v);
    }
    if !out.stats.bits.is_empty() {
        kv.put("counter.reach.coverage_bitmap_cases_hit", out.stats.bits_set());
    }
    for (i, s) in out.samples.iter().enumerate() {
        kv.put(&format!("sample.{i}"), s.render().replace('\n', " "));
    }
    kv.put(
        "nondeterministic_runs",
        out.nondeterministic
            .iter()
            .map(|r| r.to_string())
            .collect::<Vec<_>>()
            .join(","),
    );
    // minimise and persist up to 3 violations with distinct (check, signature)
    let mut seen: Vec<(String, String)> = vec![];
    let mut n = 0;
    let _ = std::fs::create_dir_all(format!("{VD}/replays"));
    for f in out.found {
        let key = (f.violation.check.to_string(), f.violation.signature.clone());
        if seen.contains(&key) || n >= 3 {
            continue;
        }
        seen.push(key);
        let (case, v, used) = minimise(p, f.case, f.violation);
        let rk = replay_kv(p, seed, f.run, &case, &v, used);
        let path = format!(
            "{VD}/replays/{}-{}-{}-{}.replay",
            p.id(),
            build_name(),
            seed,
            f.run
        );
        let text = format!("# flussab-sim replay file\n{}", rk.render());
        if std::fs::write(&path, text).is_err() {
            eprintln!("cannot write replay file {path}");
            exit(2);
        }
        kv.put(&format!("found.{n}.replay"), &path);
        kv.put(&format!("found.{n}.check"), v.check);
        kv.put(&format!("found.{n}.signature"), &v.signature);
        kv.put(&format!("found.{n}.detail"), &v.detail);
        n += 1;
    }
    kv.put("found", n);
    if std::fs::write(outfile, kv.render()).is_err() {
        eprintln!("cannot write part file {outfile}");
        exit(2);
    }
}

fn cmd_replay(path: &str) -> i32 {
    let text = match std::fs::read_to_string(path) {
        Ok(t) => t,
        Err(e) => {
            eprintln!("cannot read {path}: {e}");
            return 2;
        }
    };
    let kv = Kv::parse(&text);
    let build = kv.get("build").unwrap_or("simdbg").to_string();
    if build == "miri" && !cfg!(miri) {
        let target = kv.get("miri_target").map(|t| t.to_string());
        let heavy = kv.get("property") == Some("C02m");
        let (code, out) = run_miri_full(target.as_deref(), heavy, &["replay", path], None);
        println!("{out}");
        // under Miri any abnormal end (UB report or a model violation) reproduces the finding
        return if code == 0 { 0 } else { 1 };
    }
    if build != build_name() && !cfg!(miri) {
        // hand over to the build that found it
        let st = Command::new(other_build_exe(&build))
            .arg("replay")
            .arg(path)
            .status();
        return match st {
            Ok(s) => s.code().unwrap_or(2),
            Err(e) => {
                eprintln!("cannot start {build} binary: {e}");
                2
            }
        };
    }
    let comp = kv.get("property").unwrap_or("").to_string();
    let want = kv.get("check").unwrap_or("").to_string();
    if want.ends_with(".hang") {
        // a hang reproduces iff the case still does not finish within the time limit
        let limit: u64 = std::env::var("VERIF_HANG_REPLAY_S").ok().and_then(|s| s.parse().ok()).unwrap_or(30);
        let comp2 = comp.clone();
        let (tx, rx) = std::sync::mpsc::channel();
        std::thread::spawn(move || {
            let r = dispatch!(comp2.as_str(), p => replay(p, &kv));
            let _ = tx.send(r.is_ok());
        });
        return match rx.recv_timeout(std::time::Duration::from_secs(limit)) {
            Ok(_) => {
                println!("REPLAY-CLEAN component={comp} expected={want} (the case terminates)");
                0
            }
            Err(_) => {
                println!("REPLAY-VIOLATION component={comp} check={want} expected={want} (no result after {limit}s)");
                exit(1)
            }
        };
    }
    let res = dispatch!(comp.as_str(), p => replay(p, &kv));
    match res {
        Err(e) => {
            eprintln!("replay error: {e}");
            2
        }
        Ok(None) => {
            println!("REPLAY-CLEAN component={comp} expected={want}");
            0
        }
        Ok(Some(v)) => {
            println!(
                "REPLAY-VIOLATION component={comp} check={} expected={want} signature={:?}\n  {}",
                v.check, v.signature, v.detail
            );
            if v.check == want {
                1
            } else {
                4
            }
        }
    }
}

/// Runs the simulator under Miri (`cargo +nightly miri run`), returns (exit code, stdout+stderr).
fn run_miri(args: &[&str], log: Option<&str>) -> (i32, String) {
    run_miri_target(None, args, log)
}

/// Foreign targets the interpreter can emulate: a big-endian 64-bit one, a little-endian 32-bit
/// one, and the other mainstream 64-bit architecture (code behind `cfg(target_arch = "aarch64")`).
const CROSS_TARGETS: [&str; 3] = ["s390x-unknown-linux-gnu", "i686-unknown-linux-gnu", "aarch64-unknown-linux-gnu"];

fn run_miri_target(target: Option<&str>, args: &[&str], log: Option<&str>) -> (i32, String) {
    run_miri_full(target, false, args, log)
}

/// `heavy`: the marathon component. It runs with the dev profile (overflow checks on: a plain `+`
/// on a position counter then panics where a release build wraps) and without Miri's borrow
/// tracking and validation, whose cost per refill is proportional to the buffer size (4 GiB would
/// take hours); out-of-bounds and uninitialised accesses are still detected.
fn run_miri_full(target: Option<&str>, heavy: bool, args: &[&str], log: Option<&str>) -> (i32, String) {
    #[allow(non_snake_case)]
    let VD = verif_dir();
    let mut cmd = Command::new("cargo");
    cmd.current_dir(format!("{VD}/sim")).env("CARGO_NET_OFFLINE", "true");
    if heavy {
        cmd.env(
            "MIRIFLAGS",
            "-Zmiri-disable-stacked-borrows -Zmiri-disable-data-race-detector -Zmiri-disable-validation",
        );
        cmd.args(["+nightly", "miri", "run", "--offline", "--quiet"]);
    } else {
        cmd.args(["+nightly", "miri", "run", "--offline", "--release", "--quiet"]);
    }
    if let Some(t) = target {
        cmd.args(["--target", t]);
    }
    cmd.args(["--target-dir", &format!("{VD}/target/miri"), "--"]).args(args);
    match cmd.output() {
        Ok(o) => {
            let mut text = String::from_utf8_lossy(&o.stdout).to_string();
            text.push_str(&String::from_utf8_lossy(&o.stderr));
            if let Some(l) = log {
                let _ = std::fs::write(l, &text);
            }
            (o.status.code().unwrap_or(-1), text)
        }
        Err(e) => (-2, format!("cannot start cargo miri: {e}")),
    }
}

struct MiriJob {
    comp: &'static str,
    lo: u64,
    hi: u64,
}

struct MiriOutcome {
    runs: u64,
    steps: u64,
    /// (component, run, description, check id of a model violation or "" for a UB report)
    findings: Vec<(String, u64, String, String)>,
    errors: Vec<String>,
    wall_s: f64,
}

/// Memory oracle for C14: the same kinds of histories (plus scanner and parser drives) executed
/// under Miri in parallel interpreter processes.
fn run_miri_parts(tier: Tier, seed: u64) -> MiriOutcome {
    let plan: [(&'static str, u64, u64); 6] =
        [("C14r", 40, 5), ("C14w", 32, 4), ("C13", 64, 3), ("C14p", 60, 2), ("C14u", 60, 1), ("C01", 12, 1)];
    run_miri_plan(&plan, None, tier, seed, false)
}

/// Components of a property that are also executed under Miri for the foreign targets
/// (component, runs per job, jobs).
fn cross_plan(property: &str) -> Vec<(&'static str, u64, u64)> {
    match property {
        "C01" => vec![("C01", 6, 4)],
        // C02m: the marathon on the 32-bit target only (position() wraps there after 2^32 bytes)
        "C02" => vec![("C02", 10, 4), ("C02m", 1, 1)],
        "C08" => vec![("C08", 8, 2)],
        "C09" => vec![("C09r", 20, 2), ("C09p", 6, 2)],
        "C11" => vec![("C11", 16, 2)],
        "C14" => vec![("C14r", 20, 2), ("C14w", 16, 2), ("C14u", 30, 1)],
        "C13" => vec![("C13", 40, 3), ("C13t", 6, 1)],
        "C16" => vec![("C16", 60, 4), ("C16t", 10, 1)],
        _ => vec![],
    }
}

fn run_miri_plan(
    plan: &[(&'static str, u64, u64)],
    target: Option<&str>,
    tier: Tier,
    seed: u64,
    model_counts: bool,
) -> MiriOutcome {
    #[allow(non_snake_case)]
    let VD = verif_dir();
    let start = std::time::Instant::now();
    let mut out = MiriOutcome {
        runs: 0,
        steps: 0,
        findings: vec![],
        errors: vec![],
        wall_s: 0.0,
    };
    // build once, so that the parallel jobs do not queue up behind the build lock
    let tname = target.unwrap_or("host");
    let (code, text) = run_miri_target(target, &["miri-noop"], Some(&format!("{VD}/target/parts/miri-build-{tname}.log")));
    if code != 0 || !text.contains("MIRI-NOOP") {
        out.errors.push(format!("Miri build/run failed (exit {code}): {}", text.lines().rev().take(8).collect::<Vec<_>>().join(" | ")));
        return out;
    }
    let scale: u64 = match tier {
        Tier::Quick => 1,
        Tier::Thorough => 12,
    };
    let mut jobs = vec![];
    for &(comp, per_job, njobs) in plan {
        if comp == "C02m" && target != Some("i686-unknown-linux-gnu") {
            continue;
        }
        // the marathon is one run whatever the tier
        let scale = if comp == "C02m" { 1 } else { scale };
        for j in 0..njobs {
            jobs.push(MiriJob {
                comp,
                lo: j * per_job * scale,
                hi: (j + 1) * per_job * scale,
            });
        }
    }
    let results: Vec<(usize, i32, String)> = std::thread::scope(|sc| {
        let hs: Vec<_> = jobs
            .iter()
            .enumerate()
            .map(|(i, j)| {
                let vd = VD.clone();
                sc.spawn(move || {
                    let log = format!("{vd}/target/parts/miri-{tname}-{}-{}.log", j.comp, j.lo);
                    let (code, text) = run_miri_full(
                        target,
                        j.comp == "C02m",
                        &[
                            "miri-batch",
                            j.comp,
                            &j.lo.to_string(),
                            &j.hi.to_string(),
                            &seed.to_string(),
                        ],
                        Some(&log),
                    );
                    (i, code, text)
                })
            })
            .collect();
        hs.into_iter().map(|h| h.join().unwrap()).collect()
    });
    for (i, code, text) in results {
        let j = &jobs[i];
        let mut last_run: Option<u64> = None;
        let mut done = false;
        for line in text.lines() {
            if let Some(rest) = line.strip_prefix("MIRI-RUN ") {
                last_run = rest.split(' ').nth(1).and_then(|r| r.parse().ok());
            } else if line.starts_with("MIRI-DONE ") {
                done = true;
                if let Some(s) = line.split("steps=").nth(1) {
                    out.steps += s.trim().parse::<u64>().unwrap_or(0);
                }
            } else if let Some(rest) = line.strip_prefix("MIRI-MODEL-VIOLATION ") {
                // host target: model violations only count for the C14 components themselves (the
                // others are there for Miri's memory checks); foreign targets: they all count
                if j.comp.starts_with("C14") || model_counts {
                    let run = rest.split(' ').nth(1).and_then(|r| r.parse().ok()).unwrap_or(0);
                    let check = rest
                        .split("check=")
                        .nth(1)
                        .and_then(|c| c.split(' ').next())
                        .unwrap_or("")
                        .to_string();
                    out.findings.push((j.comp.to_string(), run, format!("model violation under Miri: {rest}"), check));
                }
            }
        }
        if done && code == 0 {
            out.runs += j.hi - j.lo;
        } else if text.contains("Undefined Behavior") {
            let run = last_run.unwrap_or(j.lo);
            out.runs += run.saturating_sub(j.lo) + 1;
            let what = text
                .lines()
                .find(|l| l.contains("Undefined Behavior"))
                .unwrap_or("")
                .trim()
                .to_string();
            let at = text
                .lines()
                .skip_while(|l| !l.contains("Undefined Behavior"))
                .find(|l| l.trim_start().starts_with("--> "))
                .unwrap_or("")
                .trim()
                .to_string();
            out.findings.push((j.comp.to_string(), run, format!("{what} {at}"), String::new()));
        } else {
            out.errors.push(format!(
                "Miri job {} {}..{} ended abnormally (exit {code}): {}",
                j.comp,
                j.lo,
                j.hi,
                text.lines().rev().take(6).collect::<Vec<_>>().join(" | ")
            ));
        }
    }
    out.wall_s = start.elapsed().as_secs_f64();
    out
}

/// Writes a replay file per Miri finding (the case is regenerated inside the interpreter for the
/// same target, because generation depends on `cfg!(miri)` and on the width of `usize`), replays
/// it in a fresh interpreter process and prints the VIOLATION lines.
fn report_miri_findings(
    property: &str,
    target: Option<&str>,
    findings: Vec<(String, u64, String, String)>,
    seed: u64,
    known: &Known,
    known_hits: &mut u64,
    violations: &mut u64,
) -> Result<(), i32> {
    #[allow(non_snake_case)]
    let VD = verif_dir();
    for (comp, run, what, model_check) in findings {
        let tname = target.map_or("miri".to_string(), |t| format!("miri-{}", t.split('-').next().unwrap_or(t)));
        let path = format!("{VD}/replays/{comp}-{tname}-{seed}-{run}.replay");
        let _ = std::fs::create_dir_all(format!("{VD}/replays"));
        let check = if !model_check.is_empty() {
            model_check.clone()
        } else if target.is_none() {
            "C14.miri".to_string()
        } else {
            format!("{property}.miri_ub")
        };
        let (code, text) = run_miri_target(
            target,
            &["miri-case-print", &comp, &run.to_string(), &seed.to_string(), &check],
            None,
        );
        let body: Option<String> = text
            .split("-----BEGIN CASE-----\n")
            .nth(1)
            .and_then(|t| t.split("-----END CASE-----").next())
            .map(|t| t.to_string());
        let Some(mut body) = body.filter(|_| code == 0) else {
            eprintln!("harness error: cannot regenerate the case of Miri finding {comp} run {run} (exit {code})");
            return Err(2);
        };
        if let Some(t) = target {
            body.push_str(&format!("miri_target={t}\n"));
        }
        if std::fs::write(&path, body).is_err() {
            eprintln!("harness error: cannot write replay file for Miri finding {comp} run {run}");
            return Err(2);
        }
        let sig_full = format!("check={check} component={comp} {what}");
        if known.matches(property, &sig_full) {
            println!("KNOWN-FINDING: property={property} {sig_full}");
            *known_hits += 1;
            continue;
        }
        // replay under Miri in a fresh process
        let (code, _text) = run_miri_full(target, comp == "C02m", &["replay", &path], None);
        if code == 0 {
            eprintln!("harness error: Miri finding {comp} run {run} did not reproduce from {path}");
            return Err(2);
        }
        println!(
            "  violation check={check} build=miri{} component={comp} run={run}: {what}",
            target.map_or(String::new(), |t| format!(" target={t}"))
        );
        println!("VIOLATION property={property} replay={path}");
        *violations += 1;
    }
    Ok(())
}

struct Part {
    kv: Kv,
}

fn spawn_part(comp: &str, build: &str, tier: Tier, seed: u64) -> Result<Option<Part>, String> {
    #[allow(non_snake_case)]
    let VD = verif_dir();
    let exe = other_build_exe(build);
    if !std::path::Path::new(&exe).exists() {
        return Err(format!("binary for build {build} missing: {exe}"));
    }
    let out = format!("{VD}/target/parts/{comp}.{build}.part");
    let _ = std::fs::create_dir_all(format!("{VD}/target/parts"));
    let _ = std::fs::remove_file(&out);
    let trace_path = format!("{VD}/target/parts/{comp}.{build}.trace");
    let run_child = |threads: Option<&str>| {
        let mut c = Command::new(&exe);
        c.args(["part", comp, tier.name(), &seed.to_string(), &out])
            .stderr(std::process::Stdio::inherit());
        if let Some(t) = threads {
            c.env("VERIF_THREADS", t).env("VERIF_TRACE_FILE", &trace_path);
        }
        c.output().map_err(|e| format!("cannot start {exe}: {e}"))
    };
    let _ = std::fs::remove_file(format!("{trace_path}.ub"));
    let mut o = run_child(None)?;
    if o.status.code().is_none() {
        // killed by a signal (e.g. the code under test corrupted the heap): the single-threaded
        // run visits the runs in order and stops at the first finding, before the damage spreads
        eprintln!("  note: component {comp} build {build} was killed by a signal; re-running it with one worker");
        let _ = std::fs::remove_file(&out);
        o = run_child(Some("1"))?;
    }
    let ub_path = format!("{trace_path}.ub");
    let ub_marker = std::fs::read_to_string(&ub_path).ok();
    let _ = std::fs::remove_file(&ub_path);
    // Still killed. For the memory-safety components that is the finding; for every component it
    // is one if the process aborted in a debug check of an unsafe precondition located in the code
    // under test (marker written by the panic hook). The trace file holds the index of the run
    // that was executing.
    let crash_check: Option<String> = if o.status.code().is_some() {
        None
    } else if comp.starts_with("C14") {
        Some("C14.crash".to_string())
    } else if ub_marker.is_some() {
        hang_check(comp).map(|h| format!("{}.crash", h.trim_end_matches(".hang")))
    } else {
        None
    };
    if let Some(crash_check) = crash_check {
        let run = std::fs::read_to_string(&trace_path)
            .ok()
            .and_then(|t| t.trim().parse::<u64>().ok());
        if let Some(run) = run {
            let path = format!("{VD}/replays/{comp}-{build}-{seed}-{run}-crash.replay");
            let _ = std::fs::create_dir_all(format!("{VD}/replays"));
            let tag = format!("{comp}/{}", match build { "simdbg" => "dbg", "simnat" => "nat", _ => "rel" });
            let st = Command::new(&exe)
                .args(["case-file", comp, &run.to_string(), &seed.to_string(), &tag, &crash_check, build, &path])
                .env("VERIF_CASE_TIER", tier.name())
                .status();
            if matches!(st, Ok(s) if s.success()) {
                let mut kv = Kv::new();
                kv.put("evaluations", run + 1);
                kv.put("found", 1);
                kv.put("found.0.replay", &path);
                kv.put("found.0.check", &crash_check);
                kv.put(
                    "found.0.signature",
                    match &ub_marker {
                        Some(m) => format!("the process aborts in a debug check of an unsafe precondition inside the code under test: {m}"),
                        None => "the process is killed by a signal (memory corruption) while executing this history".to_string(),
                    },
                );
                kv.put("found.0.detail", format!("single-worker run died in run {run}; case regenerated from (seed, run)"));
                return Ok(Some(Part { kv }));
            }
        }
    }
    match o.status.code() {
        Some(0) => {}
        Some(3) => {
            // the watchdog saw a run that does not terminate
            let text = String::from_utf8_lossy(&o.stdout).to_string();
            let run = text
                .lines()
                .find(|l| l.starts_with("HANG "))
                .and_then(|l| l.split("run=").nth(1))
                .and_then(|r| r.split(' ').next())
                .and_then(|r| r.parse::<u64>().ok());
            return match (hang_check(comp), run) {
                (Some(check), Some(run)) => {
                    let path = format!("{VD}/replays/{comp}-{build}-{seed}-{run}-hang.replay");
                    let _ = std::fs::create_dir_all(format!("{VD}/replays"));
                    let tag = format!("{comp}/{}", match build { "simdbg" => "dbg", "simnat" => "nat", _ => "rel" });
                    let st = Command::new(&exe)
                        .args(["case-file", comp, &run.to_string(), &seed.to_string(), &tag, check, build, &path])
                        .env("VERIF_CASE_TIER", tier.name())
                        .status();
                    if !matches!(st, Ok(s) if s.success()) {
                        return Err(format!("HANG in component {comp} build {build} run {run}; could not write a replay file"));
                    }
                    let mut kv = Kv::new();
                    kv.put("evaluations", run + 1);
                    kv.put("found", 1);
                    kv.put("found.0.replay", &path);
                    kv.put("found.0.check", check);
                    kv.put("found.0.signature", "a simulated run does not terminate");
                    kv.put("found.0.detail", format!("run {run} made no progress; case regenerated from (seed, run)"));
                    Ok(Some(Part { kv }))
                }
                _ => Err(format!("HANG in component {comp} build {build}: {}", text.lines().find(|l| l.starts_with("HANG ")).unwrap_or(""))),
            };
        }
        c => return Err(format!("component {comp} build {build} exited with {c:?}")),
    }
    let text = std::fs::read_to_string(&out).map_err(|e| format!("no part file {out}: {e}"))?;
    let kv = Kv::parse(&text);
    if kv.get_u64("evaluations").unwrap_or(0) == 0 {
        return Ok(None);
    }
    Ok(Some(Part { kv }))
}

fn cmd_check(property: &str, tier: Tier) -> i32 {
    #[allow(non_snake_case)]
    let VD = verif_dir();
    let seed = seed_from_env();
    let comps = components(property);
    if comps.is_empty() {
        eprintln!("property {property} has no registered check");
        return 2;
    }
    println!("flussab-sim check property={property} tier={} VERIF_SEED={seed}", tier.name());
    let known = Known::load(&format!("{VD}/known_findings.txt"));
    let start = std::time::Instant::now();
    let mut evaluations = 0u64;
    let mut distinct = 0u64;
    let mut steps = 0u64;
    let mut saturated = false;
    let mut counters: Vec<(String, Json)> = vec![];
    let mut faults: Vec<(String, Json)> = vec![];
    let mut reach: Vec<(String, Json)> = vec![];
    let mut samples: Vec<Json> = vec![];
    let mut comp_json: Vec<Json> = vec![];
    let mut violations = 0;
    let mut known_hits = 0;
    let mut rules: Vec<String> = vec![];
    let mut assumptions: Vec<String> = vec![];
    let mut real: Vec<String> = vec![];
    let mut stub: Vec<String> = vec![];
    let mut level = "exploration";

    for comp in &comps {
        let meta = dispatch!(*comp, p => p.meta());
        level = meta.level;
        rules.push(format!("[{comp}] {}", meta.rule));
        for a in meta.assumptions {
            if !assumptions.iter().any(|x| x == a) {
                assumptions.push(a.to_string());
            }
        }
        for a in meta.real {
            if !real.iter().any(|x| x == a) {
                real.push(a.to_string());
            }
        }
        for a in meta.stub {
            if !stub.iter().any(|x| x == a) {
                stub.push(a.to_string());
            }
        }
        // simnat = simrel compiled with -C target-cpu=native: for the components that run the text
        // scanners, helpers and parsers (code that is most likely to have CPU-specific paths)
        let nat = ["C01", "C08", "C09p", "C13", "C13t", "C14s", "C16", "C16t"].contains(comp);
        let builds: &[&str] = if nat { &["simdbg", "simrel", "simnat"] } else { &["simdbg", "simrel"] };
        for &build in builds {
            let part = match spawn_part(comp, build, tier, seed) {
                Ok(Some(p)) => p,
                Ok(None) => continue,
                Err(e) => {
                    eprintln!("harness error: {e}");
                    return 2;
                }
            };
            let kv = &part.kv;
            let ev = kv.get_u64("evaluations").unwrap_or(0);
            let di = kv.get_u64("distinct").unwrap_or(0);
            let wall: f64 = kv.get("wall_s").and_then(|s| s.parse().ok()).unwrap_or(0.0);
            evaluations += ev;
            distinct += di;
            steps += kv.get_u64("steps").unwrap_or(0);
            saturated |= kv.get("distinct_saturated") == Some("true");
            let nondet = kv.get("nondeterministic_runs").unwrap_or("");
            if !nondet.is_empty() {
                eprintln!(
                    "harness error: nondeterministic runs in component {comp} build {build}: {nondet}"
                );
                return 2;
            }
            println!(
                "  component={comp} build={build} runs={ev} distinct_nontrivial={di} wall_s={wall:.1}"
            );
            for (k, v) in &kv.0 {
                if let Some(name) = k.strip_prefix("counter.") {
                    let val = Json::U(v.parse().unwrap_or(0));
                    let full = format!("{comp}.{build}.{name}");
                    if name.starts_with("fault.") {
                        faults.push((full, val));
                    } else if name.starts_with("reach.") {
                        reach.push((full, val));
                    } else {
                        counters.push((full, val));
                    }
                }
                if k.starts_with("sample.") && samples.len() < 8 {
                    samples.push(Json::obj(vec![
                        ("component", Json::s(*comp)),
                        ("build", Json::s(build)),
                        ("case", Json::Raw(v.clone())),
                    ]));
                }
            }
            comp_json.push(Json::obj(vec![
                ("component", Json::s(*comp)),
                ("build", Json::s(build)),
                ("runs", Json::U(ev)),
                ("distinct_nontrivial", Json::U(di)),
                ("nontrivial_runs", Json::U(kv.get_u64("nontrivial").unwrap_or(0))),
                ("wall_s", Json::F(wall)),
                (
                    "runs_per_hour",
                    Json::U(if wall > 0.0 { (ev as f64 / wall * 3600.0) as u64 } else { 0 }),
                ),
            ]));
            // violations found by this part
            let nfound = kv.get_u64("found").unwrap_or(0);
            for i in 0..nfound {
                let path = kv.get(&format!("found.{i}.replay")).unwrap_or("").to_string();
                let check = kv.get(&format!("found.{i}.check")).unwrap_or("").to_string();
                let sig = kv.get(&format!("found.{i}.signature")).unwrap_or("").to_string();
                let detail = kv.get(&format!("found.{i}.detail")).unwrap_or("").to_string();
                let sig_full = format!("check={check} {sig}");
                if known.matches(property, &sig_full) {
                    println!("KNOWN-FINDING: property={property} {sig_full}");
                    known_hits += 1;
                    continue;
                }
                // replay in a fresh process before reporting
                let st = Command::new(other_build_exe(build))
                    .arg("replay")
                    .arg(&path)
                    .output();
                match st {
                    Ok(o)
                        if o.status.code() == Some(1)
                            || (check.ends_with(".crash") && o.status.code() != Some(0)) =>
                    {
                        println!("  violation check={check} build={build}: {sig}\n    {detail}");
                        println!("VIOLATION property={property} replay={path}");
                        violations += 1;
                    }
                    Ok(o) => {
                        eprintln!(
                            "harness error: replay of {path} did not reproduce (exit {:?}): {}",
                            o.status.code(),
                            String::from_utf8_lossy(&o.stdout)
                        );
                        return 2;
                    }
                    Err(e) => {
                        eprintln!("harness error: cannot replay {path}: {e}");
                        return 2;
                    }
                }
            }
        }
    }

    if property == "C14" && std::env::var_os("VERIF_NO_MIRI").is_none() {
        let m = run_miri_parts(tier, seed);
        if !m.errors.is_empty() {
            for e in &m.errors {
                eprintln!("harness error: {e}");
            }
            return 2;
        }
        println!(
            "  component=C14m build=miri runs={} wall_s={:.1} (reader/writer histories, scanners, parser drives under Miri)",
            m.runs, m.wall_s
        );
        evaluations += m.runs;
        steps += m.steps;
        comp_json.push(Json::obj(vec![
            ("component", Json::s("C14m (C14r + C14w + C13 + C14p + C14u + C01 cases under Miri)")),
            ("build", Json::s("miri")),
            ("runs", Json::U(m.runs)),
            ("distinct_nontrivial", Json::U(0)),
            ("wall_s", Json::F(m.wall_s)),
        ]));
        rules.push("[C14m] the C14r/C14w histories plus C13 scanner cases, C14p tiny btor2/cnf/aag/aig/satlog parser drives under small chunks and boundary-targeted cuts, C14u readers fed by a source that reports more bytes than it stored (every exposed byte is touched: initialised?), and C01 parser drives (separate seeded stream, smaller cases) executed under Miri in parallel interpreter processes; any Miri 'Undefined Behavior' report is a violation".to_string());
        real.push("Miri interpreter as memory oracle (out-of-bounds, invalid references, uninitialised reads, aliasing)".to_string());
        if let Err(code) = report_miri_findings(property, None, m.findings, seed, &known, &mut known_hits, &mut violations) {
            return code;
        }
    }

    // the property's own components once more under Miri, emulating a big-endian 64-bit and a
    // little-endian 32-bit target (the properties are stated for the library, not for x86_64)
    let cplan = cross_plan(property);
    if !cplan.is_empty() && std::env::var_os("VERIF_NO_MIRI").is_none() {
        // both targets at the same time (each is a handful of interpreter processes)
        let outcomes: Vec<MiriOutcome> = std::thread::scope(|sc| {
            let hs: Vec<_> = CROSS_TARGETS
                .iter()
                .map(|t| {
                    let cplan = &cplan;
                    sc.spawn(move || run_miri_plan(cplan, Some(t), tier, seed, true))
                })
                .collect();
            hs.into_iter().map(|h| h.join().unwrap()).collect()
        });
        for (target, m) in CROSS_TARGETS.into_iter().zip(outcomes) {
            if !m.errors.is_empty() {
                // an interpreter or sysroot that is not available is not a verdict about flussab
                // and must not break the native check: say so, count it, carry on
                for e in &m.errors {
                    eprintln!("  note: Miri for target {target} unavailable or failed, cross-target part skipped: {e}");
                }
                comp_json.push(Json::obj(vec![
                    ("component", Json::s(format!("{property}x on {target}: SKIPPED (interpreter/sysroot unavailable)"))),
                    ("build", Json::s("miri")),
                    ("runs", Json::U(0)),
                    ("distinct_nontrivial", Json::U(0)),
                    ("wall_s", Json::F(m.wall_s)),
                ]));
                continue;
            }
            println!(
                "  component={property}x build=miri target={target} runs={} wall_s={:.1}",
                m.runs, m.wall_s
            );
            evaluations += m.runs;
            steps += m.steps;
            comp_json.push(Json::obj(vec![
                (
                    "component",
                    Json::s(format!(
                        "{property}x ({} under Miri for target {target})",
                        cplan.iter().map(|c| c.0).collect::<Vec<_>>().join(" + ")
                    )),
                ),
                ("build", Json::s("miri")),
                ("runs", Json::U(m.runs)),
                ("distinct_nontrivial", Json::U(0)),
                ("wall_s", Json::F(m.wall_s)),
            ]));
            if let Err(code) = report_miri_findings(property, Some(target), m.findings, seed, &known, &mut known_hits, &mut violations) {
                return code;
            }
        }
        rules.push(format!("[{property}x] the same components (smaller cases, separate seeded stream) executed by the Miri interpreter for the foreign targets {} (big-endian 64-bit, little-endian 32-bit, aarch64): model violations and Miri 'Undefined Behavior' reports are violations", CROSS_TARGETS.join(", ")));
        real.push("Miri interpreter emulating s390x (big-endian), i686 (32-bit usize) and aarch64".to_string());
    }

    let wall = start.elapsed().as_secs_f64();
    let coverage = Json::obj(vec![
        ("evaluations", Json::U(evaluations)),
        ("distinct_nontrivial", Json::U(distinct)),
        ("distinct_count_saturated", Json::Bool(saturated)),
        ("rule", Json::s(rules.join(" || "))),
        ("samples", Json::A(samples)),
        (
            "runs_per_hour",
            Json::U(if wall > 0.0 { (evaluations as f64 / wall * 3600.0) as u64 } else { 0 }),
        ),
        ("seeds", Json::s(format!("1 base seed ({seed}); every run r uses the stream mix(seed, component/build, r)"))),
        ("logical_steps", Json::U(steps)),
        ("simulated_time", Json::s("flussab has no clock, timer or deadline; logical steps (API operations + source calls + sink calls) stand in for simulated time")),
        ("faults_fired", Json::O(faults)),
        ("reach", Json::O(reach)),
        ("counters", Json::O(counters)),
        ("components", Json::A(comp_json)),
        ("real_code", Json::A(real.into_iter().map(Json::S).collect())),
        ("stubbed", Json::A(stub.into_iter().map(Json::S).collect())),
        ("known_findings_matched", Json::U(known_hits)),
    ]);
    let ev = Json::obj(vec![
        ("property_id", Json::s(property)),
        ("tier", Json::s(tier.name())),
        ("seed", Json::U(seed)),
        ("level", Json::s(level)),
        ("coverage", coverage),
        ("assumptions", Json::A(assumptions.into_iter().map(Json::S).collect())),
        ("wall_s", Json::F(wall)),
        ("violations", Json::U(violations)),
    ]);
    let _ = std::fs::create_dir_all(format!("{VD}/evidence"));
    let path = format!("{VD}/evidence/{property}.json");
    if let Err(e) = std::fs::write(&path, ev.render()) {
        eprintln!("harness error: cannot write {path}: {e}");
        return 2;
    }
    println!(
        "property={property} tier={} evaluations={evaluations} distinct_nontrivial={distinct} violations={violations} wall_s={wall:.1}",
        tier.name()
    );
    if violations > 0 {
        1
    } else {
        0
    }
}

/// The Miri stream of a component (different from both native streams).
fn miri_tag(id: &str) -> String {
    format!("{id}/miri")
}

/// Executes runs lo..hi of a component sequentially in this process (meant to run under Miri,
/// which is the memory oracle: any UB aborts the interpreter right after the MIRI-RUN line).
fn miri_batch<P: Prop>(p: &P, lo: u64, hi: u64, seed: u64) {
    let tag = miri_tag(p.id());
    let mut st = framework::Stats::default();
    let mut model = 0;
    for run in lo..hi {
        println!("MIRI-RUN {} {}", p.id(), run);
        let mut rng = rng::Rng::new(rng::mix(seed, &tag, run));
        let case = p.gen(&mut rng, Tier::Quick);
        if std::env::args().any(|a| a == "--gen-only") {
            continue;
        }
        let out = p.exec(&case, &mut st);
        if let Some(v) = out.violation {
            model += 1;
            println!(
                "MIRI-MODEL-VIOLATION {} {} check={} {} :: {}",
                p.id(),
                run,
                v.check,
                v.signature,
                v.detail.replace('\n', " ")
            );
        }
    }
    println!(
        "MIRI-DONE {} {} {} model_violations={} steps={}",
        p.id(),
        lo,
        hi,
        model,
        st.steps
    );
}

fn miri_case<P: Prop>(p: &P, run: u64, seed: u64, path: &str) {
    let tag = miri_tag(p.id());
    case_file(
        p,
        run,
        seed,
        &tag,
        "C14.miri",
        "miri",
        &format!("Miri reports undefined behaviour in component {}", p.id()),
        path,
    );
}

/// Regenerates the case of (seed, tag, run) -- generation is a pure function -- and writes it as a
/// replay file with the given check id (used for findings that cannot report themselves: Miri UB
/// aborts and hangs).
#[allow(clippy::too_many_arguments)]
fn case_file<P: Prop>(
    p: &P,
    run: u64,
    seed: u64,
    tag: &str,
    check: &'static str,
    build: &str,
    signature: &str,
    path: &str,
) {
    let mut rng = rng::Rng::new(rng::mix(seed, tag, run));
    // the generators of some components depend on the tier (stream lengths)
    let tier = std::env::var("VERIF_CASE_TIER")
        .ok()
        .and_then(|t| Tier::parse(&t))
        .unwrap_or(Tier::Quick);
    let case = p.gen(&mut rng, tier);
    let v = framework::Violation {
        check,
        signature: signature.to_string(),
        detail: String::new(),
    };
    let mut kv = replay_kv(p, seed, run, &case, &v, 0);
    for e in kv.0.iter_mut() {
        if e.0 == "build" {
            e.1 = build.to_string();
        }
    }
    let text = format!("# flussab-sim replay file\n{}", kv.render());
    if std::fs::write(path, text).is_err() {
        eprintln!("cannot write {path}");
        exit(2);
    }
}

fn case_text<P: Prop>(p: &P, run: u64, seed: u64, tag: &str, check: &'static str, build: &str, signature: &str) -> String {
    let mut rng = rng::Rng::new(rng::mix(seed, tag, run));
    let case = p.gen(&mut rng, Tier::Quick);
    let v = framework::Violation {
        check,
        signature: signature.to_string(),
        detail: String::new(),
    };
    let mut kv = replay_kv(p, seed, run, &case, &v, 0);
    for e in kv.0.iter_mut() {
        if e.0 == "build" {
            e.1 = build.to_string();
        }
    }
    let mut text = format!("# flussab-sim replay file\n{}", kv.render());
    if !text.ends_with('\n') {
        text.push('\n');
    }
    text
}

/// A simulated run that never returns cannot satisfy any of the properties (each of them is stated
/// over the results of API calls), so a hang is reported as a violation of the component's property.
fn hang_check(comp: &str) -> Option<&'static str> {
    match comp {
        "C01" | "C01g" => Some("C01.hang"),
        "C02" | "C02m" => Some("C02.hang"),
        "C04" | "C04g" => Some("C04.hang"),
        "C08" => Some("C08.hang"),
        "C09p" | "C09r" | "C09h" => Some("C09.hang"),
        "C10" | "C10r" => Some("C10.hang"),
        "C11" => Some("C11.hang"),
        "C13" | "C13t" => Some("C13.hang"),
        "C14r" | "C14w" | "C14s" => Some("C14.hang"),
        "C16" | "C16t" => Some("C16.hang"),
        _ => None,
    }
}

/// Determinism self-test: every component with 1 worker and with 16 workers must produce the same
/// order-independent digest of per-run event-log hashes, the same counts and no violations.
fn cmd_selftest() -> i32 {
    let seed = seed_from_env();
    let mut bad = 0;
    for comp in [
        "C01", "C01g", "C02", "C02m", "C04", "C04g", "C08", "C09p", "C09r", "C09h", "C10", "C10r", "C11", "C13", "C13t", "C14r", "C14w",
        "C14s", "C16", "C16t",
    ] {
        let runs = match comp {
            "C10" => 48,
            "C10r" => 400,
            "C04" => 2_000,
            "C01g" | "C02m" | "C04g" => 2,
            "C09h" => 8,
            _ => 40_000,
        };
        let mut res = vec![];
        for threads in [1usize, 16, 5] {
            let o = dispatch!(comp, p => {
                let out = search(p, &Opts { seed, tier: Tier::Quick, threads, runs_override: Some(runs), determinism_probe: 32 });
                (out.stats.digest, out.evaluations, out.stats.distinct.len(), out.found.len(), out.nondeterministic.len())
            });
            res.push(o);
        }
        let ok = res.iter().all(|r| *r == res[0]) && res[0].4 == 0;
        println!(
            "selftest component={comp} runs={runs} digest={:016x} evaluations={} distinct={} violations={} : {}",
            res[0].0,
            res[0].1,
            res[0].2,
            res[0].3,
            if ok { "deterministic across 1/16/5 workers" } else { "MISMATCH" }
        );
        if !ok {
            println!("  {res:?}");
            bad += 1;
        }
    }
    if bad > 0 {
        2
    } else {
        0
    }
}

/// Developer aid: how often do "grammar-valid" documents really parse to a clean end?
fn cmd_gencheck() -> i32 {
    use drive::{transcript, Ctor, Outcome, PCfg, ALL_KINDS};
    use std::rc::Rc;
    for kind in ALL_KINDS {
        let mut ok = 0;
        let mut bad = 0;
        let mut shown = 0;
        for i in 0..3000u64 {
            let mut rng = rng::Rng::new(i * 7919 + 13);
            let cfg = PCfg {
                kind,
                lit: rng.below(5) as u8,
                flag: rng.chance(1, 3),
                whole: false,
                early: 0,
            };
            // mostly the small classes, some huge (3) and long-token (4) documents
            let size = if i % 40 == 0 { 3 + (i / 40 % 2) as usize } else { rng.below(3) };
            let d = gen::valid(&mut rng, &cfg, size);
            let src = source::SimSource::new(Rc::new(d.bytes.clone()), source::SourceCfg::one_shot());
            let t = transcript(&cfg, &Ctor::default_one_shot(), src, 0);
            let counted_ok = t.counted == d.item_ends.len();
            if t.outcome == Outcome::CleanEnd && counted_ok {
                ok += 1;
            } else {
                bad += 1;
                if shown < 4 {
                    shown += 1;
                    println!(
                        "  {} NOT CLEAN: {} (items {} vs expected {})\n    doc={}",
                        cfg.describe(),
                        t.outcome.short(),
                        t.counted,
                        d.item_ends.len(),
                        json::show_bytes(&d.bytes)
                    );
                }
            }
        }
        println!("{}: clean={} not_clean={}", kind.name(), ok, bad);
    }
    0
}

fn main() {
    let args: Vec<String> = std::env::args().collect();
    crash::install_hook();
    let _ = counters_json;
    let code = match args.get(1).map(|s| s.as_str()) {
        Some("check") if args.len() >= 4 => match Tier::parse(&args[3]) {
            Some(t) => cmd_check(&args[2], t),
            None => 2,
        },
        Some("part") if args.len() >= 6 => {
            let tier = Tier::parse(&args[3]).unwrap_or(Tier::Quick);
            let seed: u64 = args[4].parse().unwrap_or(DEFAULT_SEED);
            dispatch!(args[2].as_str(), p => run_part(p, tier, seed, &args[5]));
            0
        }
        Some("replay") if args.len() >= 3 => cmd_replay(&args[2]),
        Some("gencheck") => cmd_gencheck(),
        Some("selftest") => cmd_selftest(),
        Some("case-file") if args.len() >= 9 => {
            // case-file <comp> <run> <seed> <tag> <check> <build> <path>
            let run: u64 = args[3].parse().unwrap_or(0);
            let seed: u64 = args[4].parse().unwrap_or(DEFAULT_SEED);
            let comp = args[2].clone();
            let check: &'static str = match hang_check(&comp) {
                Some(c) if c == args[6] => c,
                _ if args[6].ends_with(".crash") => Box::leak(args[6].clone().into_boxed_str()),
                _ => "hang",
            };
            dispatch!(comp.as_str(), p => case_file(p, run, seed, &args[5], check, &args[7], if check.ends_with(".crash") { "the process is killed by a signal while executing this history" } else { "the run does not terminate" }, &args[8]));
            0
        }
        Some("miri-noop") => {
            println!("MIRI-NOOP build={}", build_name());
            0
        }
        Some("miri-batch") if args.len() >= 6 => {
            let lo: u64 = args[3].parse().unwrap_or(0);
            let hi: u64 = args[4].parse().unwrap_or(0);
            let seed: u64 = args[5].parse().unwrap_or(DEFAULT_SEED);
            let comp = args[2].clone();
            dispatch!(comp.as_str(), p => miri_batch(p, lo, hi, seed));
            0
        }
        Some("miri-case-print") if args.len() >= 6 => {
            // regenerate the case of a Miri run (inside the interpreter, for the same target) and
            // print it as a replay file
            let run: u64 = args[3].parse().unwrap_or(0);
            let seed: u64 = args[4].parse().unwrap_or(DEFAULT_SEED);
            let comp = args[2].clone();
            let check: &'static str = Box::leak(args[5].clone().into_boxed_str());
            dispatch!(comp.as_str(), p => {
                let tag = miri_tag(p.id());
                let text = case_text(p, run, seed, &tag, check, "miri", &format!("Miri run of component {} fails", p.id()));
                println!("-----BEGIN CASE-----\n{text}-----END CASE-----");
            });
            0
        }
        Some("miri-case") if args.len() >= 6 => {
            // regenerate the case of a Miri run natively and write it as a replay file
            let run: u64 = args[3].parse().unwrap_or(0);
            let seed: u64 = args[4].parse().unwrap_or(DEFAULT_SEED);
            let comp = args[2].clone();
            dispatch!(comp.as_str(), p => miri_case(p, run, seed, &args[5]));
            0
        }
        _ => {
            eprintln!(
                "usage: flussab-sim check <PROPERTY> <quick|thorough> | part <COMP> <tier> <seed> <out> | replay <file>"
            );
            2
        }
    };
    exit(code);
}
