//! C09 (parser level): a line-buffered peer that only sends the next line after it has been
//! handed every item completed by the lines sent so far. A `read()` that arrives while the
//! released lines are exhausted and items are still owed is a deadlock of the two-party protocol.

use std::cell::{Cell, RefCell};
use std::io::{self, ErrorKind, Read};
use std::rc::Rc;

use crate::drive::{drive, transcript, Ctor, Outcome, PCfg, PKind, Via, ITEM};
use crate::framework::{Meta, Prop, RunOut, Stats, Tier, Violation};
use crate::gen;
use crate::json::{hex, show_bytes, Json, Kv};
use crate::rng::{Fnv, Rng};
use crate::source::{step_from_str, step_to_string, SimSource, SourceCfg, Step};

pub struct PeerState {
    data: Rc<Vec<u8>>,
    /// end offsets of the deliveries (each ends just past a `\n`, the last one at the end)
    ends: Vec<usize>,
    item_ends: Vec<usize>,
    released: usize,
    pos: usize,
    handed: Rc<Cell<usize>>,
    /// how the bytes inside a released delivery are cut up (cycled)
    steps: Vec<Step>,
    step_idx: usize,
    pub deadlock: Option<(usize, usize)>, // (owed item index, offset)
    pub calls: u64,
    pub interrupted: u64,
    pub short_reads: u64,
    pub eofs: u64,
    pub calls_after_eof: u64,
    pub releases: u64,
    pub trace: Fnv,
}

#[derive(Clone)]
pub struct Peer(pub Rc<RefCell<PeerState>>);

impl Peer {
    pub fn new(
        data: Rc<Vec<u8>>,
        item_ends: Vec<usize>,
        steps: Vec<Step>,
        handed: Rc<Cell<usize>>,
    ) -> Peer {
        let mut ends = vec![];
        for (i, &b) in data.iter().enumerate() {
            if b == b'\n' {
                ends.push(i + 1);
            }
        }
        if ends.last() != Some(&data.len()) && !data.is_empty() {
            ends.push(data.len());
        }
        Peer(Rc::new(RefCell::new(PeerState {
            data,
            ends,
            item_ends,
            released: 0,
            pos: 0,
            handed,
            steps,
            step_idx: 0,
            deadlock: None,
            calls: 0,
            interrupted: 0,
            short_reads: 0,
            eofs: 0,
            calls_after_eof: 0,
            releases: 0,
            trace: Fnv::default(),
        })))
    }
}

impl Read for Peer {
    fn read(&mut self, buf: &mut [u8]) -> io::Result<usize> {
        let mut st = self.0.borrow_mut();
        st.calls += 1;
        st.trace.u64(buf.len() as u64);
        if st.deadlock.is_some() {
            return Err(io::Error::new(ErrorKind::Other, "peer: deadlock"));
        }
        if buf.is_empty() {
            return Ok(0);
        }
        let released_end = if st.released == 0 { 0 } else { st.ends[st.released - 1] };
        if st.pos >= released_end {
            if st.released == st.ends.len() {
                if st.eofs > 0 {
                    st.calls_after_eof += 1;
                }
                st.eofs += 1;
                st.trace.u64(u64::MAX);
                return Ok(0);
            }
            // everything sent so far has been read: the peer sends the next line only when it has
            // been handed every item those lines complete
            let owed = st.item_ends.iter().filter(|&&e| e <= released_end).count();
            if st.handed.get() < owed {
                st.deadlock = Some((st.handed.get(), released_end));
                return Err(io::Error::new(ErrorKind::Other, "peer: deadlock"));
            }
            st.released += 1;
            st.releases += 1;
        }
        let released_end = st.ends[st.released - 1];
        let step = if st.steps.is_empty() {
            Step::Fill
        } else {
            let s = st.steps[st.step_idx % st.steps.len()];
            st.step_idx += 1;
            s
        };
        match step {
            Step::Interrupted => {
                st.interrupted += 1;
                st.trace.u64(u64::MAX - 1);
                Err(io::Error::new(ErrorKind::Interrupted, "simulated EINTR"))
            }
            other => {
                let want = match other {
                    Step::Deliver(n) => n.max(1),
                    _ => usize::MAX,
                };
                let n = want.min(buf.len()).min(released_end - st.pos);
                let p = st.pos;
                buf[..n].copy_from_slice(&st.data[p..p + n]);
                st.pos += n;
                if n < buf.len() {
                    st.short_reads += 1;
                }
                st.trace.u64(n as u64);
                Ok(n)
            }
        }
    }
}

#[derive(Clone, Debug)]
pub struct PeerCase {
    pub cfg: PCfg,
    pub doc: Vec<u8>,
    pub item_ends: Vec<usize>,
    pub ctor: Ctor,
    pub steps: Vec<Step>,
}

pub struct C09Peer;

const STREAMING: [PKind; 6] = [
    PKind::Cnf,
    PKind::Wcnf,
    PKind::Gcnf,
    PKind::Aag,
    PKind::Aig,
    PKind::Btor2,
];

impl Prop for C09Peer {
    type Case = PeerCase;
    fn id(&self) -> &'static str {
        "C09p"
    }
    fn meta(&self) -> Meta {
        Meta {
            level: "exploration",
            rule: "seeded grammar-valid documents of the six streaming parsers (cnf, wcnf, gcnf, aag and aig section readers, btor2; all literal types; headers, comments, split clauses, CRLF, symbols, comment sections, binary and-gates) served by a line-buffered peer: it releases line j+1 only after the consumer has been handed every item completed by lines 0..j (item completion offsets come from the generator; lines are split at every 0x0a byte, also inside binary AIGER data); inside a released line the peer varies read sizes and injects Interrupted; the consumer drives the public streaming API; violation = a read() while all released data is consumed and an item is still owed (deadlock), or a final transcript different from the one-shot transcript; non-trivial iff the peer released at least two lines; distinct = distinct (parser cfg, ctor, document, peer-trace hash)",
            assumptions: vec![
                "item completion offsets are produced by the document generators (validated: the number of handed-out items equals the number of completion offsets for every generated document)",
                "the AIGER comment section and the final clean end need end of input by nature and are not counted as owed items",
            ],
            real: vec!["cnf/wcnf/gcnf/aag/aig/btor2 parsers (streaming API)", "flussab::DeferredReader", "flussab::text scanners"],
            stub: vec!["line-buffered producer (LineBufferedPeer)", "item consumer"],
        }
    }
    fn runs(&self, tier: Tier) -> u64 {
        match (tier, cfg!(debug_assertions)) {
            (Tier::Quick, true) => 1_000_000,
            (Tier::Quick, false) => 500_000,
            (Tier::Thorough, true) => 40_000_000,
            (Tier::Thorough, false) => 16_000_000,
        }
    }
    fn gen(&self, rng: &mut Rng, _tier: Tier) -> PeerCase {
        let kind = *rng.pick(&STREAMING);
        let cfg = PCfg {
            kind,
            lit: rng.below(5) as u8,
            flag: rng.chance(1, 3),
            whole: false,
            early: 0,
        };
        let size = rng.weighted(&[3, 5, 2]);
        let d = gen::valid(rng, &cfg, size);
        let ctor = match rng.below(6) {
            0 => Ctor::ParserFromRead,
            1 => Ctor::ParserBoxed,
            2 => Ctor::Reader {
                via: Via::FromRead,
                chunk: None,
            },
            _ => Ctor::Reader {
                via: if rng.chance(1, 2) { Via::FromRead } else { Via::Boxed },
                chunk: Some(*rng.pick(&super::parsers::CHUNKS)),
            },
        };
        let steps = match rng.below(4) {
            0 => vec![],
            1 => vec![Step::Deliver(1)],
            _ => {
                let n = 1 + rng.below(8);
                (0..n)
                    .map(|_| match rng.below(6) {
                        0 => Step::Interrupted,
                        1 => Step::Fill,
                        _ => Step::Deliver(1 + rng.small(12)),
                    })
                    .chain(std::iter::once(Step::Fill))
                    .collect()
            }
        };
        PeerCase {
            cfg,
            doc: d.bytes,
            item_ends: d.item_ends,
            ctor,
            steps,
        }
    }
    fn exec(&self, case: &PeerCase, st: &mut Stats) -> RunOut {
        let data = Rc::new(case.doc.clone());
        let reference = {
            let src = SimSource::new(data.clone(), SourceCfg::one_shot());
            transcript(&case.cfg, &Ctor::default_one_shot(), src, 0)
        };
        let handed = Rc::new(Cell::new(0usize));
        let peer = Peer::new(
            data.clone(),
            case.item_ends.clone(),
            case.steps.clone(),
            handed.clone(),
        );
        let mut items: Vec<String> = vec![];
        let outcome = drive(&case.cfg, &case.ctor, peer.clone(), 0, &mut |kind, f| {
            items.push(f());
            if kind == ITEM {
                handed.set(handed.get() + 1);
            }
        });
        let p = peer.0.borrow();
        st.steps += p.calls + items.len() as u64;
        st.add("fault.interrupted", p.interrupted);
        st.add("fault.short_read", p.short_reads);
        st.add("peer.lines_released", p.releases);
        st.hit(&format!("parser.{}", case.cfg.kind.name()));
        let mut violation = None;
        if let Some((idx, off)) = p.deadlock {
            let owed = reference
                .items
                .iter()
                .zip(reference.kinds.iter())
                .filter(|(_, &k)| k == ITEM)
                .map(|(i, _)| i.as_str())
                .nth(idx)
                .unwrap_or("?");
            let word = owed.split(' ').next().unwrap_or("?");
            violation = Some(Violation {
                check: "C09.deadlock",
                signature: format!(
                    "parser={} waits for input beyond the line that completes a {word} item",
                    case.cfg.kind.name()
                ),
                detail: format!(
                    "item #{idx} ({owed}) is complete once the first {off} bytes are delivered ({:?}), but the parser asked for more input before handing it out",
                    show_bytes(&data[off.saturating_sub(30)..off])
                ),
            });
        } else if p.calls_after_eof > 0 {
            violation = Some(Violation {
                check: "C09.read_after_end",
                signature: format!(
                    "parser={} calls the source again after end of input",
                    case.cfg.kind.name()
                ),
                detail: format!("{} calls after Ok(0)", p.calls_after_eof),
            });
        } else if items != reference.items || outcome != reference.outcome {
            if matches!(outcome, Outcome::Panic(_)) && outcome == reference.outcome {
                st.hit("note.identical_panic_on_both_sides");
            } else {
                violation = Some(Violation {
                    check: "C09.transcript",
                    signature: format!(
                        "parser={} line-by-line delivery changes the result",
                        case.cfg.kind.name()
                    ),
                    detail: format!(
                        "one-shot: {} items, {}; line-buffered: {} items, {}",
                        reference.items.len(),
                        reference.outcome.short(),
                        items.len(),
                        outcome.short()
                    ),
                });
            }
        }
        if reference.outcome != Outcome::CleanEnd {
            st.hit("note.document_not_accepted");
        }
        let mut k = Fnv::default();
        k.str(&case.cfg.encode());
        k.str(&case.ctor.encode());
        k.bytes(&case.doc);
        k.u64(p.trace.0);
        let mut t = Fnv::default();
        t.u64(p.trace.0);
        for i in &items {
            t.str(i);
        }
        RunOut {
            violation,
            key: if p.releases >= 2 { Some(k.0) } else { None },
            trace: t.0,
        }
    }
    fn shrink(&self, case: &PeerCase) -> Vec<PeerCase> {
        let mut out = vec![];
        if !matches!(case.ctor, Ctor::Reader { via: Via::FromRead, chunk: None }) {
            let mut c = case.clone();
            c.ctor = Ctor::default_one_shot();
            out.push(c);
        }
        if !case.steps.is_empty() {
            let mut c = case.clone();
            c.steps = vec![];
            out.push(c);
            if case.steps != [Step::Deliver(1)] {
                let mut c = case.clone();
                c.steps = vec![Step::Deliver(1)];
                out.push(c);
            }
        }
        // truncate after line j (shortest first)
        let mut ends: Vec<usize> = case
            .doc
            .iter()
            .enumerate()
            .filter(|(_, &b)| b == b'\n')
            .map(|(i, _)| i + 1)
            .collect();
        ends.retain(|&e| e < case.doc.len());
        for e in ends {
            let mut c = case.clone();
            c.doc.truncate(e);
            c.item_ends.retain(|&x| x <= e);
            out.push(c);
        }
        out
    }
    fn encode(&self, case: &PeerCase, kv: &mut Kv) {
        kv.put("case.parser", case.cfg.encode());
        kv.put("case.parser_readable", case.cfg.describe());
        kv.put("case.doc", hex(&case.doc));
        kv.put("case.doc_readable", show_bytes(&case.doc));
        kv.put(
            "case.item_ends",
            case.item_ends
                .iter()
                .map(|x| x.to_string())
                .collect::<Vec<_>>()
                .join(","),
        );
        kv.put("case.ctor", case.ctor.encode());
        kv.put(
            "case.peer_steps",
            case.steps.iter().map(step_to_string).collect::<Vec<_>>().join(","),
        );
    }
    fn decode(&self, kv: &Kv) -> Option<PeerCase> {
        let list = |k: &str| -> Vec<String> {
            kv.get(k)
                .unwrap_or("")
                .split(',')
                .filter(|s| !s.is_empty())
                .map(|s| s.to_string())
                .collect()
        };
        Some(PeerCase {
            cfg: PCfg::decode(kv.get("case.parser")?)?,
            doc: kv.get_bytes("case.doc")?,
            item_ends: list("case.item_ends")
                .iter()
                .map(|s| s.parse().ok())
                .collect::<Option<Vec<usize>>>()?,
            ctor: Ctor::decode(kv.get("case.ctor")?)?,
            steps: list("case.peer_steps")
                .iter()
                .map(|s| step_from_str(s))
                .collect::<Option<Vec<_>>>()?,
        })
    }
    fn sample(&self, case: &PeerCase) -> Json {
        Json::obj(vec![
            ("parser", Json::s(case.cfg.describe())),
            ("document", Json::s(show_bytes(&case.doc))),
            (
                "item_completion_offsets",
                Json::A(case.item_ends.iter().map(|&x| Json::U(x as u64)).collect()),
            ),
            ("ctor", Json::s(case.ctor.encode())),
            (
                "peer_read_sizes",
                Json::s(case.steps.iter().map(step_to_string).collect::<Vec<_>>().join(",")),
            ),
        ])
    }
}
