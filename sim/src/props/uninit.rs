//! C14 (Miri only): a sloppy `Read` that reports more bytes than it stored (within the slice it
//! was given). The reader then exposes whatever its buffer held there; that must at least be
//! initialised memory. The harness touches every exposed byte, Miri checks initialisedness.

use std::rc::Rc;

use flussab::DeferredReader;

use crate::framework::{Meta, Prop, RunOut, Stats, Tier};
use crate::json::{Json, Kv};
use crate::rng::{Fnv, Rng};
use crate::source::{SimSource, SourceCfg, Step};

#[derive(Clone, Debug)]
pub struct UninitCase {
    pub len: usize,
    pub chunk: usize,
    pub src: SourceCfg,
    pub requests: Vec<(usize, usize)>, // (request n, then advance m)
}

pub struct MiriUninit;

impl Prop for MiriUninit {
    type Case = UninitCase;
    fn id(&self) -> &'static str {
        "C14u"
    }
    fn meta(&self) -> Meta {
        Meta {
            level: "exploration",
            rule: "a Read that stores k bytes but reports up to k+extra (within the offered slice); request/advance sequences; every exposed byte is read by the harness (Miri: initialised?)",
            assumptions: vec![],
            real: vec!["flussab::DeferredReader"],
            stub: vec!["sloppy byte source"],
        }
    }
    fn runs(&self, _tier: Tier) -> u64 {
        0
    }
    fn gen(&self, rng: &mut Rng, _tier: Tier) -> UninitCase {
        let len = rng.range(8, 200);
        let nsteps = 1 + rng.below(8);
        let steps = (0..nsteps)
            .map(|_| match rng.below(3) {
                0 => Step::Deliver(1 + rng.small(20)),
                _ => Step::Overreport(1 + rng.small(16), 1 + rng.small(24)),
            })
            .collect();
        UninitCase {
            len,
            chunk: *rng.pick(&[4usize, 8, 16, 33, 64, 300]),
            src: SourceCfg {
                steps,
                cycle: true,
                fail_at: None,
                fail_os: None,
                poison: None,
            },
            requests: (0..1 + rng.below(6))
                .map(|_| (rng.small(120), rng.small(60)))
                .collect(),
        }
    }
    fn exec(&self, case: &UninitCase, st: &mut Stats) -> RunOut {
        let data: Rc<Vec<u8>> = Rc::new((0..case.len).map(|i| (i * 7 + 1) as u8).collect());
        let src = SimSource::new(data, case.src.clone());
        let mut r = DeferredReader::from_read(src.clone());
        r.set_chunk_size(case.chunk);
        let mut sum = Fnv::default();
        for &(n, m) in &case.requests {
            let got = r.request(n);
            // touch every exposed byte
            for &b in got {
                sum.byte(b);
            }
            let k = m.min(r.buf_len());
            for &b in r.advance_with_buf(k) {
                sum.byte(b);
            }
            st.steps += 2;
        }
        st.steps += src.state().c.calls;
        // the content of over-reported bytes is unspecified: keep it out of the trace
        let _ = sum;
        let trace = src.state().trace.0;
        RunOut {
            violation: None,
            key: None,
            trace,
        }
    }
    fn shrink(&self, _case: &UninitCase) -> Vec<UninitCase> {
        vec![]
    }
    fn encode(&self, case: &UninitCase, kv: &mut Kv) {
        kv.put("case.len", case.len);
        kv.put("case.chunk", case.chunk);
        kv.put("case.src", case.src.encode());
        kv.put(
            "case.requests",
            case.requests
                .iter()
                .map(|(a, b)| format!("{a}:{b}"))
                .collect::<Vec<_>>()
                .join(","),
        );
    }
    fn decode(&self, kv: &Kv) -> Option<UninitCase> {
        Some(UninitCase {
            len: kv.get_usize("case.len")?,
            chunk: kv.get_usize("case.chunk")?,
            src: SourceCfg::decode(kv.get("case.src")?)?,
            requests: kv
                .get("case.requests")?
                .split(',')
                .filter(|s| !s.is_empty())
                .map(|s| {
                    let (a, b) = s.split_once(':')?;
                    Some((a.parse().ok()?, b.parse().ok()?))
                })
                .collect::<Option<Vec<_>>>()?,
        })
    }
    fn sample(&self, case: &UninitCase) -> Json {
        Json::obj(vec![
            ("len", Json::U(case.len as u64)),
            ("chunk", Json::U(case.chunk as u64)),
            ("plan", Json::s(case.src.encode())),
        ])
    }
}
