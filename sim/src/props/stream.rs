//! C10: streaming memory is bounded by chunk size and largest item, not by the stream length.
//! `StreamSource` generates a well-formed stream on the fly (never materialised); a counting
//! allocator with per-thread counters observes the peak live heap while the real parser streams.

use std::io::{self, ErrorKind, Read};

use crate::alloc;
use crate::drive::{drive, Ctor, Outcome, PCfg, PKind, Via};
use crate::framework::{Meta, Prop, RunOut, Stats, Tier, Violation};
use crate::json::{Json, Kv};
use crate::rng::{Fnv, Rng};

#[derive(Clone, Copy, Debug, PartialEq, Eq)]
pub enum ReadSizes {
    /// as much as offered
    Full,
    /// at most one line per read (terminal / pipe from a running tool)
    LinePerRead,
    OneByte,
    /// random sizes 1..=max
    Random(usize),
}

#[derive(Clone, Debug)]
pub struct StreamCase {
    pub kind: PKind,
    pub lit: u8,
    pub chunk: Option<usize>,
    pub sizes: ReadSizes,
    pub seed: u64,
    /// total stream length (bytes)
    pub total: usize,
    /// bound on a single item (clause, line, comment) in bytes
    pub max_item: usize,
    /// probability (percent) of comment/blank bursts
    pub burst: u8,
    pub interrupts: bool,
    /// swarm profile: which item forms this run may produce (bit mask, never 0); lets whole runs
    /// consist of e.g. named BTOR2 nodes without a single constant line
    pub profile: u32,
    /// DIMACS: declare exactly this many clauses in the header, then fill the rest of the stream
    /// with a trailer of comment / blank lines (0 = counts unspecified)
    pub declared: u64,
}

pub struct StreamSource {
    kind: PKind,
    lit: u8,
    rng: Rng,
    sizes: ReadSizes,
    max_item: usize,
    burst_pct: u8,
    interrupts: bool,
    total: usize,
    pub delivered: usize,
    pending: Vec<u8>,
    pend_pos: usize,
    started: bool,
    next_id: u64,
    aig_code: u64,
    profile: u32,
    declared: u64,
    clauses_out: u64,
    burst_left: usize,
    /// 0 mixed, 1 comment lines only, 2 blank lines only
    burst_kind: u8,
    /// how blank lines look during the current burst: 0 empty, 1 always with blanks, 2 either
    blank_style: u8,
    pub calls: u64,
    pub interrupted: u64,
    pub items_generated: u64,
    pub trace: Fnv,
    done: bool,
    /// filler lines still to come inside the clause that is currently open (profile bit 0x200)
    inner_left: usize,
    /// the open clause still needs its closing literals and terminator
    inner_tail: bool,
    /// the BTOR2 stream got its malformed last line (profile bit 0x400)
    poisoned: bool,
    pub inner_bursts: u64,
    pub poison_tails: u64,
}

impl StreamSource {
    pub fn new(c: &StreamCase) -> Self {
        StreamSource {
            kind: c.kind,
            lit: c.lit,
            rng: Rng::new(c.seed),
            sizes: c.sizes,
            max_item: c.max_item.max(16),
            burst_pct: c.burst,
            interrupts: c.interrupts,
            total: c.total,
            delivered: 0,
            pending: Vec::with_capacity(c.max_item + 64),
            pend_pos: 0,
            started: false,
            next_id: 0,
            aig_code: 2,
            profile: if c.profile == 0 { u32::MAX } else { c.profile },
            declared: c.declared,
            clauses_out: 0,
            burst_left: 0,
            burst_kind: 0,
            blank_style: 0,
            calls: 0,
            interrupted: 0,
            items_generated: 0,
            trace: Fnv::default(),
            done: false,
            inner_left: 0,
            inner_tail: false,
            poisoned: false,
            inner_bursts: 0,
            poison_tails: 0,
        }
    }

    fn lit_max(&self) -> u64 {
        [127u64, 32767, 1_000_000, 1_000_000_000_000, 1_000_000_000_000][self.lit as usize % 5]
    }

    /// Appends the next line(s) of the stream to `pending`. One call = one item or filler line.
    fn generate(&mut self) {
        use std::io::Write;
        let lit_max = self.lit_max();
        let p = &mut self.pending;
        p.clear();
        self.pend_pos = 0;
        let rng = &mut self.rng;
        let m = self.max_item;
        if !self.started {
            self.started = true;
            match self.kind {
                PKind::Cnf => {
                    if self.declared > 0 || rng.chance(1, 2) {
                        let _ = writeln!(p, "p cnf {} {}", if rng.chance(1, 2) { 0 } else { lit_max }, self.declared);
                        return;
                    }
                }
                PKind::Wcnf => {
                    if self.declared > 0 || rng.chance(1, 2) {
                        let _ = writeln!(p, "p wcnf 0 {} {}", self.declared, rng.next_u64());
                        return;
                    }
                }
                PKind::Gcnf => {
                    if self.declared > 0 || rng.chance(1, 2) {
                        let _ = writeln!(p, "p gcnf 0 {} 0", self.declared);
                        return;
                    }
                }
                PKind::Aag => {
                    let _ = writeln!(p, "aag {} 0 0 0 {}", 1u64 << 40, 1u64 << 40);
                    return;
                }
                PKind::Aig => {
                    let _ = writeln!(p, "aig {} 0 0 0 {}", 1u64 << 40, 1u64 << 40);
                    return;
                }
                _ => {}
            }
        }
        // a run of comment / empty lines inside a clause that was split over lines: the clause's own
        // bytes stay small, every filler line is an item of its own
        if self.inner_left > 0 {
            self.inner_left -= 1;
            if rng.chance(1, 3) {
                p.push(b'\n');
            } else {
                p.extend_from_slice(b"c ");
                let n = rng.below(m.min(60));
                p.extend(std::iter::repeat(b'y').take(n));
                p.push(b'\n');
            }
            return;
        }
        if self.inner_tail {
            self.inner_tail = false;
            for _ in 0..rng.below(3) {
                let v = 1 + rng.next_u64() % lit_max;
                let _ = write!(p, " {v}");
            }
            p.extend_from_slice(b" 0\n");
            return;
        }
        // bursts of filler lines (consecutive comments / blank lines), each line short
        if self.burst_left == 0 && self.burst_pct > 0 && rng.below(10_000) < self.burst_pct as usize {
            self.burst_left = 1 + rng.below(200_000);
            self.burst_kind = rng.below(3) as u8;
            self.blank_style = rng.below(3) as u8;
        }
        let filler_ok = matches!(self.kind, PKind::Cnf | PKind::Wcnf | PKind::Gcnf | PKind::Btor2);
        let trailer = self.declared > 0 && self.clauses_out >= self.declared;
        if trailer && self.burst_left == 0 {
            // the whole rest of the stream is a trailer of one flavour
            self.burst_left = usize::MAX / 2;
            self.burst_kind = rng.below(3) as u8;
            self.blank_style = rng.below(3) as u8;
        }
        if filler_ok && (self.burst_left > 0 || rng.chance(1, 12)) {
            let in_burst = self.burst_left > 0;
            self.burst_left = self.burst_left.saturating_sub(1);
            let pick = match (in_burst, self.burst_kind) {
                (true, 1) => 1,
                (true, 2) => 0,
                _ => rng.below(3),
            };
            let blanks: &[u8] = match (self.blank_style, rng.below(2)) {
                (0, _) | (2, 0) => b"",
                _ => {
                    if rng.chance(1, 2) {
                        b"  "
                    } else {
                        b" "
                    }
                }
            };
            if self.kind == PKind::Btor2 {
                match pick {
                    0 => {
                        p.extend_from_slice(blanks);
                        p.push(b'\n')
                    }
                    _ => {
                        p.push(b';');
                        let n = rng.below(m.min(60));
                        p.extend(std::iter::repeat(b'x').take(n));
                        p.push(b'\n');
                    }
                }
            } else {
                match pick {
                    0 => {
                        p.extend_from_slice(blanks);
                        p.push(b'\n')
                    }
                    _ => {
                        p.extend_from_slice(b"c ");
                        let n = if rng.chance(1, 20) { rng.below(m - 3) } else { rng.below(m.min(60)) };
                        p.extend(std::iter::repeat(b'y').take(n));
                        p.push(b'\n');
                    }
                }
            }
            return;
        }
        self.items_generated += 1;
        let lits_budget = |rng: &mut Rng| -> usize {
            // number of bytes the literals of this item may use
            match rng.below(10) {
                0 => m.saturating_sub(48),
                1 => 0,
                _ => rng.below(m.min(120)),
            }
        };
        match self.kind {
            PKind::Cnf | PKind::Wcnf | PKind::Gcnf => {
                self.clauses_out += 1;
                if self.kind == PKind::Wcnf {
                    let _ = write!(p, "{} ", rng.next_u64() >> rng.below(64));
                } else if self.kind == PKind::Gcnf {
                    let _ = write!(p, "{{{}}} ", rng.next_u64() >> rng.below(64));
                }
                let budget = lits_budget(rng);
                let start = p.len();
                while p.len() - start + 24 < budget {
                    let v = 1 + rng.next_u64() % lit_max;
                    if rng.chance(1, 2) {
                        p.push(b'-');
                    }
                    let _ = write!(p, "{v}");
                    if self.profile & 0x200 != 0 && self.burst_pct > 0 && rng.chance(1, 400) {
                        // line break inside the clause, then a long run of filler lines, then the rest
                        p.push(b'\n');
                        self.inner_left = 1 + rng.below(200_000);
                        self.inner_tail = true;
                        self.inner_bursts += 1;
                        return;
                    } else if self.profile & 0x100 != 0 && rng.chance(1, 40) {
                        p.extend_from_slice(b"\nc in between\n ");
                    } else {
                        p.push(b' ');
                    }
                }
                p.extend_from_slice(b"0\n");
            }
            PKind::Btor2 => {
                self.next_id += 1;
                let id = self.next_id;
                let r = |rng: &mut Rng| 1 + rng.next_u64() % id;
                // pick a form that the run's profile allows
                let mut form = rng.below(6);
                for _ in 0..6 {
                    if self.profile & (1 << form) != 0 {
                        break;
                    }
                    form = (form + 1) % 6;
                }
                match form {
                    0 => {
                        let _ = write!(p, "{id} sort bitvec {}", 1 + rng.below(64));
                    }
                    1 => {
                        let _ = write!(p, "{id} justice ");
                        let budget = lits_budget(rng);
                        let n = (budget / 12).max(1);
                        let _ = write!(p, "{n}");
                        for _ in 0..n {
                            let _ = write!(p, " {}", r(rng));
                        }
                    }
                    2 => {
                        let _ = write!(p, "{id} constd {} ", r(rng));
                        let n = 1 + lits_budget(rng);
                        for _ in 0..n {
                            p.push(*rng.pick(b"0123456789"));
                        }
                    }
                    3 => {
                        let _ = write!(p, "{id} add {} {} {}", r(rng), r(rng), r(rng));
                    }
                    4 => {
                        let _ = write!(p, "{id} input {} ", r(rng));
                        let n = 1 + lits_budget(rng);
                        p.extend(std::iter::repeat(b's').take(n));
                    }
                    _ => {
                        let _ = write!(p, "{id} ite {} {} {} {}", r(rng), r(rng), r(rng), r(rng));
                    }
                }
                if self.profile & 0x40 != 0 && rng.chance(1, 4) {
                    p.extend_from_slice(b" ; trailing comment");
                }
                p.push(b'\n');
            }
            PKind::Aag => {
                let v = 2 * (1 + rng.next_u64() % (1 << 39));
                let _ = writeln!(p, "{v} {} {}", rng.next_u64() % (1 << 40), rng.next_u64() % (1 << 40));
            }
            PKind::Aig => {
                let code = self.aig_code;
                let d0 = rng.next_u64() % (code + 1).min(1 << 20);
                let d1 = rng.next_u64() % (code - d0 + 1).min(1 << 20);
                for mut v in [d0, d1] {
                    loop {
                        let b = (v & 0x7f) as u8;
                        v >>= 7;
                        if v == 0 {
                            p.push(b);
                            break;
                        }
                        p.push(b | 0x80);
                    }
                }
                self.aig_code += 2;
            }
            PKind::SatLog => {
                p.extend_from_slice(b"c line\n");
            }
        }
    }
}

impl Read for StreamSource {
    fn read(&mut self, buf: &mut [u8]) -> io::Result<usize> {
        self.calls += 1;
        if buf.is_empty() {
            return Ok(0);
        }
        if self.done {
            return Ok(0);
        }
        if self.interrupts && self.rng.chance(1, 64) {
            self.interrupted += 1;
            return Err(io::Error::new(ErrorKind::Interrupted, "simulated EINTR"));
        }
        let limit = match self.sizes {
            ReadSizes::Full => buf.len(),
            ReadSizes::LinePerRead => buf.len(),
            ReadSizes::OneByte => 1,
            ReadSizes::Random(max) => (1 + self.rng.below(max)).min(buf.len()),
        };
        let mut n = 0;
        while n < limit {
            if self.pend_pos == self.pending.len() {
                if self.delivered >= self.total && self.inner_left == 0 && !self.inner_tail {
                    if self.kind == PKind::Btor2 && self.profile & 0x400 != 0 && !self.poisoned {
                        // malformed last line: a justice node that declares millions of conditions and
                        // has three; it is rejected, and must be rejected without memory for the declared count
                        use std::io::Write;
                        self.poisoned = true;
                        self.poison_tails += 1;
                        self.pending.clear();
                        self.pend_pos = 0;
                        self.next_id += 1;
                        let count = 2_000_000 + self.rng.below(6_000_000);
                        let _ = writeln!(self.pending, "{} justice {} 1 1 1", self.next_id, count);
                        continue;
                    }
                    self.done = true;
                    break;
                }
                self.generate();
            }
            let avail = &self.pending[self.pend_pos..];
            let k = match self.sizes {
                ReadSizes::LinePerRead => {
                    // up to and including the next newline
                    let e = avail.iter().position(|&b| b == b'\n').map_or(avail.len(), |i| i + 1);
                    e.min(limit - n)
                }
                _ => avail.len().min(limit - n),
            };
            buf[n..n + k].copy_from_slice(&avail[..k]);
            self.pend_pos += k;
            self.delivered += k;
            n += k;
            if self.sizes == ReadSizes::LinePerRead {
                break;
            }
        }
        self.trace.u64(n as u64);
        Ok(n)
    }
}

pub struct C10;

const KINDS: [PKind; 6] = [
    PKind::Cnf,
    PKind::Wcnf,
    PKind::Gcnf,
    PKind::Btor2,
    PKind::Aag,
    PKind::Aig,
];

pub fn bound(chunk: usize, max_item: usize) -> usize {
    16 * chunk + 32 * max_item + (64 << 10)
}

impl Prop for C10 {
    type Case = StreamCase;
    fn id(&self) -> &'static str {
        "C10"
    }
    fn meta(&self) -> Meta {
        Meta {
            level: "exploration",
            rule: "seeded streams of the cnf / wcnf / gcnf / btor2 / aag-section / aig-section parsers generated on the fly by StreamSource (never materialised): items (clauses, weighted/grouped clauses, split clauses, BTOR2 lines incl. long justice/constant/symbol lines, and-gates) of at most max_item bytes, bursts of up to 200k consecutive short comment/blank lines, runs of up to 200k filler lines between two literals of one split clause, an optional malformed last BTOR2 line (justice with a declared count of millions), total length N >= 8 x bound; per run a chunk size in {1..16384}, a read-size policy (full / one line per read / one byte / random) and optional Interrupted; observation: per-thread counting global allocator, baseline taken before the parser is built, peak sampled at every item; oracle: peak - baseline <= 16*chunk + 32*max_item + 64 KiB (independent of N); non-trivial iff at least 8 x bound bytes were streamed; distinct = distinct case parameters",
            assumptions: vec![
                "the constants of the bound come from the reader's own policy (realign beyond 2 chunks, Vec doubling, one reusable buffer per item) with a factor >= 2 of slack; they are upper bounds for a correct tree, not a specification of it",
                "allocations are attributed to the worker thread that runs the parser (thread-local counters)",
            ],
            real: vec!["cnf/wcnf/gcnf/btor2/aag/aig streaming parsers", "flussab::DeferredReader (realign / shrink)", "System allocator (wrapped, counting)"],
            stub: vec!["unbounded byte source (StreamSource)", "item consumer (discards items)"],
        }
    }
    fn runs(&self, tier: Tier) -> u64 {
        match (tier, cfg!(debug_assertions)) {
            (Tier::Quick, true) => 256,
            (Tier::Quick, false) => 512,
            (Tier::Thorough, true) => 2_000,
            (Tier::Thorough, false) => 6_000,
        }
    }
    fn gen(&self, rng: &mut Rng, tier: Tier) -> StreamCase {
        let kind = *rng.pick(&KINDS);
        let chunk = match rng.below(8) {
            0 => None,
            _ => Some(*rng.pick(&[1usize, 2, 3, 8, 17, 64, 300, 4096, 16384, 65536])),
        };
        let max_item = *rng.pick(&[32usize, 64, 200, 1000, 4096, 4096, 40_000]);
        let sizes = match rng.below(6) {
            0 | 1 => ReadSizes::Full,
            2 | 3 => ReadSizes::LinePerRead,
            4 => ReadSizes::Random(*rng.pick(&[3usize, 40, 1000, 20000])),
            _ => ReadSizes::OneByte,
        };
        // byte-wise and tiny random reads cost a call per byte: keep their streams short by keeping
        // the bound (chunk, max item) small
        let slow = matches!(sizes, ReadSizes::OneByte | ReadSizes::Random(3))
            || matches!(chunk, Some(c) if c <= 8);
        let (chunk, max_item) = if slow {
            (
                Some(chunk.unwrap_or(4096).min(4096)),
                max_item.min(4096),
            )
        } else {
            (chunk, max_item)
        };
        let b = bound(chunk.unwrap_or(16 << 10), max_item);
        let factor = match tier {
            Tier::Quick => 8 + rng.below(24),
            // now and then a marathon, for leaks of a few bytes per item
            Tier::Thorough if rng.chance(1, 20) => 1000,
            Tier::Thorough => 8 + rng.below(120),
        };
        // one-byte reads are slow: keep those streams at the minimum length; marathons only
        // where a read moves at least a kilobyte
        let factor = if slow {
            8
        } else if chunk.map_or(false, |c| c < 1024) || matches!(sizes, ReadSizes::Random(40)) {
            factor.min(128)
        } else {
            factor
        };
        StreamCase {
            kind,
            lit: rng.below(5) as u8,
            chunk,
            sizes,
            seed: rng.next_u64(),
            total: b * factor,
            max_item,
            burst: *rng.pick(&[0u8, 1, 5, 30]),
            interrupts: rng.chance(1, 4),
            profile: if rng.chance(1, 2) {
                u32::MAX
            } else {
                (rng.next_u64() as u32 & 0x7ff) | (1 << rng.below(6))
            },
            declared: if kind.is_dimacs() && rng.chance(1, 4) {
                1 + rng.below(3000) as u64
            } else {
                0
            },
        }
    }
    fn exec(&self, case: &StreamCase, st: &mut Stats) -> RunOut {
        let src = StreamSource::new(case);
        let cfg = PCfg {
            kind: case.kind,
            lit: if case.kind.is_aiger() { 3 } else { case.lit },
            flag: false,
            whole: false,
            early: 0,
        };
        let ctor = Ctor::Reader {
            via: Via::FromRead,
            chunk: case.chunk,
        };
        let chunk = case.chunk.unwrap_or(16 << 10);
        let limit = bound(chunk, case.max_item) as isize;
        let baseline = alloc::reset_peak();
        let mut worst: isize = 0;
        let mut first_over: Option<(u64, isize)> = None;
        let mut items: u64 = 0;
        let mut src = src;
        let outcome = {
            let srcref = &mut src;
            drive(&cfg, &ctor, srcref, 0, &mut |_k, _f| {
                items += 1;
                if items % 8192 == 0 {
                    // marathons: the watchdog measures progress, not the whole stream
                    crate::framework::heartbeat();
                }
                let p = alloc::peak() - baseline;
                if p > worst {
                    worst = p;
                }
                if p > limit && first_over.is_none() {
                    first_over = Some((items, p));
                }
            })
        };
        let p = alloc::peak() - baseline;
        if p > worst {
            worst = p;
        }
        if p > limit && first_over.is_none() {
            first_over = Some((items, p));
        }
        st.steps += src.calls + items;
        st.add("stream.bytes", src.delivered as u64);
        st.add("stream.items", items);
        st.add("fault.interrupted", src.interrupted);
        st.add("stream.filler_runs_inside_clause", src.inner_bursts);
        st.add("stream.malformed_last_line", src.poison_tails);
        st.hit(&format!("parser.{}", case.kind.name()));
        st.hit(match case.sizes {
            ReadSizes::Full => "reads.full",
            ReadSizes::LinePerRead => "reads.line_per_read",
            ReadSizes::OneByte => "reads.one_byte",
            ReadSizes::Random(_) => "reads.random",
        });
        let ratio_pct = (worst.max(0) as u64 * 100) / limit as u64;
        st.max("peak_percent_of_bound", ratio_pct);
        st.max("peak_live_bytes", worst.max(0) as u64);
        let mut violation = None;
        if let Some((at_item, peak)) = first_over {
            violation = Some(Violation {
                check: "C10.bound",
                signature: format!(
                    "parser={} live heap exceeds the chunk/item bound while streaming (reads: {:?})",
                    case.kind.name(),
                    match case.sizes {
                        ReadSizes::Random(_) => "random".to_string(),
                        s => format!("{s:?}"),
                    }
                ),
                detail: format!(
                    "peak live heap {peak} bytes > bound {limit} (chunk {chunk}, max item {}) at item {at_item}; stream so far {} of {} bytes; final peak {worst}",
                    case.max_item, src.delivered, case.total
                ),
            });
        }
        match &outcome {
            Outcome::Panic(p) => {
                violation = Some(Violation {
                    check: "C10.panic",
                    signature: format!("parser={} panics while streaming", case.kind.name()),
                    detail: p.short(),
                });
            }
            Outcome::Syntax { msg, line, column } => {
                // the aag/aig streams end before the declared number of gates: that is expected
                if !case.kind.is_aiger() {
                    st.hit("note.stream_rejected");
                    if std::env::var_os("VERIF_DEBUG_STREAM").is_some() {
                        eprintln!("stream rejected: {line}:{column} {msg} -- {case:?}");
                    }
                }
            }
            _ => {}
        }
        let mut t = Fnv::default();
        t.u64(src.trace.0);
        t.u64(items);
        t.u64(worst as u64);
        let mut k = Fnv::default();
        k.str(&format!("{case:?}"));
        RunOut {
            violation,
            key: if src.delivered >= 8 * limit as usize { Some(k.0) } else { None },
            trace: t.0,
        }
    }
    fn shrink(&self, case: &StreamCase) -> Vec<StreamCase> {
        let mut out = vec![];
        if case.total > 4096 {
            let mut c = case.clone();
            c.total = case.total / 2;
            out.push(c);
        }
        if case.interrupts {
            let mut c = case.clone();
            c.interrupts = false;
            out.push(c);
        }
        if case.burst != 0 {
            let mut c = case.clone();
            c.burst = 0;
            out.push(c);
        }
        out
    }
    fn encode(&self, case: &StreamCase, kv: &mut Kv) {
        kv.put("case.kind", case.kind.name());
        kv.put("case.lit", case.lit);
        kv.put("case.chunk", case.chunk.map_or("-".to_string(), |c| c.to_string()));
        kv.put(
            "case.sizes",
            match case.sizes {
                ReadSizes::Full => "full".to_string(),
                ReadSizes::LinePerRead => "line".to_string(),
                ReadSizes::OneByte => "one".to_string(),
                ReadSizes::Random(m) => format!("random{m}"),
            },
        );
        kv.put("case.seed", case.seed);
        kv.put("case.total", case.total);
        kv.put("case.max_item", case.max_item);
        kv.put("case.burst", case.burst);
        kv.put("case.interrupts", case.interrupts);
        kv.put("case.profile", case.profile);
        kv.put("case.declared", case.declared);
    }
    fn decode(&self, kv: &Kv) -> Option<StreamCase> {
        Some(StreamCase {
            kind: PKind::parse(kv.get("case.kind")?)?,
            lit: kv.get("case.lit")?.parse().ok()?,
            chunk: match kv.get("case.chunk")? {
                "-" => None,
                s => Some(s.parse().ok()?),
            },
            sizes: match kv.get("case.sizes")? {
                "full" => ReadSizes::Full,
                "line" => ReadSizes::LinePerRead,
                "one" => ReadSizes::OneByte,
                s => ReadSizes::Random(s.strip_prefix("random")?.parse().ok()?),
            },
            seed: kv.get_u64("case.seed")?,
            total: kv.get_usize("case.total")?,
            max_item: kv.get_usize("case.max_item")?,
            burst: kv.get("case.burst")?.parse().ok()?,
            interrupts: kv.get("case.interrupts")? == "true",
            profile: kv.get("case.profile").and_then(|s| s.parse().ok()).unwrap_or(u32::MAX),
            declared: kv.get_u64("case.declared").unwrap_or(0),
        })
    }
    fn sample(&self, case: &StreamCase) -> Json {
        Json::obj(vec![
            ("parser", Json::s(case.kind.name())),
            ("chunk", Json::s(case.chunk.map_or("default 16384".to_string(), |c| c.to_string()))),
            ("read_sizes", Json::s(format!("{:?}", case.sizes))),
            ("stream_bytes", Json::U(case.total as u64)),
            ("max_item_bytes", Json::U(case.max_item as u64)),
            ("burst_per_10000", Json::U(case.burst as u64)),
            ("interrupted_reads", Json::Bool(case.interrupts)),
            ("swarm_profile_mask", Json::U(case.profile as u64)),
            ("declared_clause_count_then_trailer", Json::U(case.declared)),
            (
                "bound_bytes",
                Json::U(bound(case.chunk.unwrap_or(16 << 10), case.max_item) as u64),
            ),
        ])
    }
}
