//! C08: syntax errors point at the offending token.
//!  (a) range: every reported location lies inside the input (all input classes, all schedules);
//!  (b) exact: a grammar-valid document corrupted at one known token is rejected at that token.

use crate::drive::{Ctor, Outcome, PCfg, PKind};
use crate::framework::{Meta, Prop, RunOut, Stats, Tier, Violation};
use crate::gen::{self, Doc, Tok, TokKind};
use crate::json::{hex, show_bytes, Json, Kv};
use crate::props::parsers::{
    gen_cfg, gen_ctor, msg_class, run_scheduled, shrink_case, ParseCase,
};
use crate::rng::{Fnv, Rng};
use crate::source::SourceCfg;
use crate::source::gen_plan;

#[derive(Clone, Debug)]
pub struct LocCase {
    pub base: ParseCase,
    /// (b): expected (line, first column, last column) in the parser-visible numbering
    pub expect: Option<(usize, usize, usize)>,
    pub corruption: String,
    /// binary AIGER: range check uses the weakened rule
    pub binary: bool,
}

pub struct C08;

/// Line/column in the numbering the parser can see: `\n` inside `skip` (binary data) is no newline.
fn visible_line_col(bytes: &[u8], off: usize, skip: Option<(usize, usize)>) -> (usize, usize) {
    let mut line = 1;
    let mut start = 0;
    for (i, &b) in bytes[..off.min(bytes.len())].iter().enumerate() {
        let in_skip = skip.map_or(false, |(a, e)| i >= a && i < e);
        if b == b'\n' && !in_skip {
            line += 1;
            start = i + 1;
        }
    }
    (line, off - start + 1)
}

fn digits(n: usize, rng: &mut Rng) -> Vec<u8> {
    let mut v = vec![*rng.pick(b"123456789")];
    for _ in 1..n {
        v.push(*rng.pick(b"0123456789"));
    }
    v
}

/// Picks a corruption for the token. Returns (new token text, first col offset, last col offset,
/// name). Column offsets are relative to the token start.
fn corrupt(
    rng: &mut Rng,
    cfg: &PCfg,
    tok: &Tok,
    old: &[u8],
) -> Option<(Vec<u8>, usize, usize, &'static str)> {
    let whole = |t: Vec<u8>, name: &'static str| {
        let l = t.len();
        Some((t, 0, l.saturating_sub(1), name))
    };
    let garbage = |rng: &mut Rng| -> Vec<u8> { rng.pick(&[&b"x#y"[..], b"?", b"+1", b"~~"]).to_vec() };
    match &tok.kind {
        TokKind::Text | TokKind::Name if cfg.kind == PKind::Btor2 || matches!(tok.kind, TokKind::Text) => None,
        TokKind::AigComment => {
            // (lo == hi == usize::MAX - k) encodes "expected exactly at byte k of the new token text",
            // which may be on a later line than the token start
            if rng.chance(1, 2) && old.len() >= 2 && old.ends_with(b"\n") {
                // missing final newline: reported at the end of the input
                let t = old[..old.len() - 1].to_vec();
                let k = t.len();
                Some((t, usize::MAX - k, usize::MAX - k, "comment without final newline"))
            } else {
                let mut t = old.to_vec();
                let at = rng.below(t.len() + 1);
                let at = (0..=at).rev().find(|&i| std::str::from_utf8(&t[..i]).is_ok()).unwrap_or(0);
                t.insert(at, 0xff);
                Some((t, usize::MAX - at, usize::MAX - at, "invalid utf-8 in comment"))
            }
        }
        TokKind::Name => {
            // invalid UTF-8 inside an AIGER symbol name
            let mut t = old.to_vec();
            let at = rng.below(t.len() + 1);
            // keep multi-byte characters intact: insert only at character boundaries
            let at = (0..=at).rev().find(|&i| std::str::from_utf8(&t[..i]).is_ok()).unwrap_or(0);
            t.insert(at, 0xff);
            Some((t, at, at, "invalid utf-8 in name"))
        }
        TokKind::Keyword => {
            // with ignore_unknown_lines a solver-log line with an unknown first word is skipped,
            // so where (and whether) the error shows up is no longer determined by this token
            if old == b";" || (cfg.kind == PKind::SatLog && cfg.flag && old.len() == 1) {
                return None;
            }
            let mut t = old.to_vec();
            let last = t.len() - 1;
            t[last] = b'X';
            whole(t, "keyword corrupted")
        }
        TokKind::Lit { limit } => match rng.below(4) {
            0 => whole(garbage(rng), "garbage token"),
            1 if *limit < isize::MAX as i128 => {
                let v = limit + 1;
                let s = if rng.chance(1, 2) { v.to_string() } else { format!("-{v}") };
                whole(s.into_bytes(), "out-of-range literal")
            }
            2 => {
                let mut t = old.to_vec();
                t.push(b'x');
                whole(t, "missing separator")
            }
            _ => {
                let mut t = if rng.chance(1, 2) { vec![b'-'] } else { vec![] };
                t.extend(digits(20 + rng.below(20), rng));
                whole(t, "overflowing number")
            }
        },
        TokKind::Zero => whole(garbage(rng), "garbage token"),
        TokKind::Count { limit, .. } => match rng.below(4) {
            0 => whole(garbage(rng), "garbage token"),
            1 => whole(digits(21 + rng.below(20), rng), "overflowing number"),
            2 if limit.map_or(false, |l| l < (usize::MAX as u128) / 4) => {
                whole((limit.unwrap() + 1).to_string().into_bytes(), "bad count")
            }
            _ if cfg.kind.is_dimacs() => whole(b"-3".to_vec(), "bad count"),
            _ => whole(garbage(rng), "garbage token"),
        },
        TokKind::Group { limit } => match rng.below(3) {
            0 => whole(b"{x}".to_vec(), "garbage token"),
            1 if *limit < usize::MAX as u128 => {
                whole(format!("{{{}}}", limit + 1).into_bytes(), "out-of-range group")
            }
            _ => {
                let mut t = vec![b'{'];
                t.extend(digits(21 + rng.below(10), rng));
                t.push(b'}');
                whole(t, "overflowing number")
            }
        },
        TokKind::ALit { assigning, max } => match rng.below(5) {
            0 => whole(garbage(rng), "garbage token"),
            1 => whole((max + 1 + (*assigning && max % 2 == 0) as u128).to_string().into_bytes(), "out-of-range literal"),
            2 => whole(digits(21 + rng.below(20), rng), "overflowing number"),
            3 => {
                let mut t = b"00".to_vec();
                t.extend_from_slice(old);
                whole(t, "leading zeros")
            }
            _ if *assigning => whole(
                if rng.chance(1, 2) { b"0".to_vec() } else { b"3".to_vec() },
                "odd/zero defining literal",
            ),
            _ => whole(garbage(rng), "garbage token"),
        },
        TokKind::LatchInit { own, max } => match rng.below(4) {
            0 => whole(garbage(rng), "garbage token"),
            1 => whole(digits(21 + rng.below(20), rng), "overflowing number"),
            _ if *max >= 3 => {
                // a literal of the file that is neither 0, 1 nor the latch itself
                let mut v = 2 + rng.below((*max - 1).min(1 << 30) as usize) as u128;
                if v == *own {
                    v = if v + 1 <= *max { v + 1 } else { v - 1 };
                }
                if v < 2 || v == *own {
                    return None;
                }
                whole(v.to_string().into_bytes(), "inadmissible latch reset value")
            }
            _ => whole((max + 2).to_string().into_bytes(), "out-of-range literal"),
        },
        TokKind::SymIdx { limit } => match rng.below(3) {
            0 => whole(garbage(rng), "garbage token"),
            1 => whole((limit + 1).to_string().into_bytes(), "out-of-range index"),
            _ => whole(digits(21 + rng.below(20), rng), "overflowing number"),
        },
        TokKind::NodeId => match rng.below(4) {
            0 => whole(b"0".to_vec(), "node id 0"),
            1 => whole(digits(21 + rng.below(20), rng), "overflowing number"),
            2 => {
                let mut t = b"0".to_vec();
                t.extend_from_slice(old);
                whole(t, "leading zeros")
            }
            _ => whole(garbage(rng), "garbage token"),
        },
        TokKind::Num => match rng.below(2) {
            0 => whole(digits(21 + rng.below(20), rng), "overflowing number"),
            _ => whole(garbage(rng), "garbage token"),
        },
        TokKind::Const(_) => {
            let mut t = old.to_vec();
            let at = rng.below(t.len());
            t[at] = b'z';
            Some((t, at, at, "bad constant digit"))
        }
        TokKind::Delta { max } => match rng.below(2) {
            0 if *max < (1 << 40) => {
                // a delta larger than its reference
                let mut v = (*max + 1 + rng.below(1000) as u128) as usize;
                let mut out = vec![];
                loop {
                    let b = (v & 0x7f) as u8;
                    v >>= 7;
                    if v == 0 {
                        out.push(b);
                        break;
                    }
                    out.push(b | 0x80);
                }
                let l = out.len();
                Some((out, 0, l - 1, "binary delta larger than its reference"))
            }
            _ => {
                let out = vec![0xffu8; 11];
                Some((out, 0, 10, "over-long varint"))
            }
        },
        _ => None,
    }
}

fn gen_case(rng: &mut Rng) -> LocCase {
    // half of the runs: exact clause on a corrupted valid document; rest: range clause on any input
    let exact = rng.chance(1, 2);
    if !exact {
        let base = crate::props::parsers::gen_parse_case(rng, false);
        let binary = base.cfg.kind == PKind::Aig;
        return LocCase {
            base,
            expect: None,
            corruption: String::new(),
            binary,
        };
    }
    gen_exact(rng)
}

/// A grammar-valid document corrupted at one generator-known token, with read boundaries aimed
/// at that token (also used by C01 for a share of its runs).
pub fn gen_exact(rng: &mut Rng) -> LocCase {
    let mut cfg = gen_cfg(rng);
    cfg.whole = false;
    // now and then a document of thousands of items: the corrupted token then sits at a large
    // offset, beyond several realigns, whatever the chunk size
    let size = if !cfg!(miri) && rng.chance(1, 60) {
        3
    } else {
        rng.weighted(&[3, 5, 2])
    };
    let d: Doc = gen::valid(rng, &cfg, size);
    let mut bytes = d.bytes.clone();
    let mut focus: Option<(usize, usize)> = None;
    let mut expect = None;
    let mut corruption = String::new();
    let mut binary = d.binary;
    let cands: Vec<&Tok> = d.toks.iter().collect();
    if !cands.is_empty() {
        for _ in 0..8 {
            let tok = *rng.pick(&cands);
            let old = &d.bytes[tok.start..tok.start + tok.len];
            if let Some((new, lo, hi, name)) = corrupt(rng, &cfg, tok, old) {
                if new == old {
                    continue;
                }
                let (line, col) = visible_line_col(&d.bytes, tok.start, d.binary);
                bytes.splice(tok.start..tok.start + tok.len, new.iter().copied());
                if let Some((a, e)) = binary {
                    // the corrupted token may sit inside or before the binary section
                    let delta = new.len() as isize - tok.len as isize;
                    if tok.start < a {
                        binary = Some(((a as isize + delta) as usize, (e as isize + delta) as usize));
                    } else if tok.start < e {
                        binary = Some((a, (e as isize + delta) as usize));
                    }
                }
                if lo > usize::MAX / 2 {
                    // absolute position inside the new token text
                    let k = usize::MAX - lo;
                    let (l2, c2) = visible_line_col(&bytes, tok.start + k, binary);
                    expect = Some((l2, c2, c2));
                } else {
                    expect = Some((line, col + lo, col + hi));
                }
                corruption = format!("{name}: {:?} -> {:?} at offset {}", show_bytes(old), show_bytes(&new), tok.start);
                focus = Some((tok.start, tok.start + new.len()));
                break;
            }
        }
    }
    // deep focus: in a huge document, one read boundary exactly in front of the corrupted token
    // and chunk sizes in the shipped range (the cursor is then tens of KiB into the buffer)
    let deep = size == 3 && focus.is_some() && rng.chance(1, 2);
    let ctor = if deep {
        Ctor::Reader {
            via: crate::drive::Via::FromRead,
            chunk: *rng.pick(&[None, Some(16384usize), Some(4096), Some(1000), Some(65536)]),
        }
    } else {
        gen_ctor(rng)
    };
    let junk = if ctor.uses_bufreader() {
        let n = rng.small(12);
        rng.bytes(n)
    } else {
        vec![]
    };
    let cuts: Vec<usize> = match focus {
        // half of the runs: the read boundaries are aimed at the corrupted token only
        Some((a, e)) if rng.chance(1, 2) => vec![a + junk.len(), e + junk.len()],
        _ => d.cuts().iter().map(|c| c + junk.len()).collect(),
    };
    let interrupts = rng.weighted(&[6, 2, 1]) as u8;
    let mut src = gen_plan(rng, bytes.len() + junk.len(), &cuts, interrupts);
    if deep {
        let at = focus.unwrap().0;
        src = SourceCfg {
            steps: vec![crate::source::Step::Until(at.saturating_sub(*rng.pick(&[0usize, 0, 0, 1, 2])))],
            cycle: false,
            fail_at: None,
            fail_os: None,
            poison: None,
        };
    }
    let _ = binary;
    LocCase {
        base: ParseCase {
            cfg,
            doc: bytes,
            class: if expect.is_some() { 3 } else { 0 },
            spans: vec![],
            ctor,
            junk,
            src,
            only_k: None,
            fault_kind: 0,
        },
        expect,
        corruption,
        binary: cfg.kind == PKind::Aig,
    }
}

/// Range rule of the property. Returns an error text if the location is outside the input.
fn range_check(doc: &[u8], binary: bool, line: usize, column: usize) -> Option<String> {
    let nl = doc.iter().filter(|&&b| b == b'\n').count();
    let number_of_lines = if doc.is_empty() {
        0
    } else if doc.last() == Some(&b'\n') {
        nl
    } else {
        nl + 1
    };
    if line < 1 || line > number_of_lines + 1 {
        return Some(format!(
            "line {line} is outside 1..={} (the input has {number_of_lines} lines)",
            number_of_lines + 1
        ));
    }
    if binary {
        // `\n` bytes inside the binary and-gate section are data: only the weak bound is sound
        if column < 1 || column > doc.len() + 1 {
            return Some(format!("column {column} is outside 1..={}", doc.len() + 1));
        }
        return None;
    }
    let len = doc.split(|&b| b == b'\n').nth(line - 1).map_or(0, |l| l.len());
    if column < 1 || column > len + 1 {
        return Some(format!(
            "column {column} is outside 1..={} (line {line} has {len} bytes)",
            len + 1
        ));
    }
    None
}

impl Prop for C08 {
    type Case = LocCase;
    fn id(&self) -> &'static str {
        "C08"
    }
    fn meta(&self) -> Meta {
        Meta {
            level: "exploration",
            rule: "(a) range clause: inputs as for C01 (valid / mutated / arbitrary, 7 parsers) under seeded constructors, chunk sizes and read plans; every reported SyntaxError must satisfy 1 <= line <= lines+1 and 1 <= column <= len(line)+1 (binary AIGER: column <= len(input)+1, because 0x0a bytes in the and-gate section are data); a panic inside flussab/src/text.rs while the error is being produced counts as 'no valid location'. (b) exact clause: a grammar-valid document is corrupted at ONE token chosen from the generator's token spans with a corruption from a catalogue whose error position is unambiguous (garbage token, out-of-range literal/group/index, overflowing number, missing separator, leading zeros, odd/zero defining literal, bad count, invalid UTF-8 in a symbol name, node id 0, bad constant digit, binary delta larger than its reference, over-long varint); if the parser rejects the document the reported line must be the token's line and the column must lie on the new token text; documents that are still accepted are counted (not_rejected), not judged. non-trivial iff a SyntaxError was reported; distinct = distinct (parser cfg, ctor, input, source-trace hash)",
            assumptions: vec![
                "for binary AIGER the exact clause uses the parser-visible numbering tracked by the generator (0x0a bytes inside the and-gate section do not start a line)",
                "the corruption catalogue only contains corruptions for which the grammar leaves no other place to report the error",
            ],
            real: vec!["all seven parsers", "LineReader line/column bookkeeping", "DeferredReader mark"],
            stub: vec!["byte source (SimSource)"],
        }
    }
    fn runs(&self, tier: Tier) -> u64 {
        match (tier, cfg!(debug_assertions)) {
            (Tier::Quick, true) => 1_500_000,
            (Tier::Quick, false) => 1_500_000,
            (Tier::Thorough, true) => 60_000_000,
            (Tier::Thorough, false) => 60_000_000,
        }
    }
    fn gen(&self, rng: &mut Rng, _tier: Tier) -> LocCase {
        gen_case(rng)
    }
    fn exec(&self, case: &LocCase, st: &mut Stats) -> RunOut {
        let (got, src) = run_scheduled(&case.base, None);
        let s = src.state();
        st.steps += s.c.calls + got.items.len() as u64;
        st.add("fault.short_read", s.c.short_reads);
        st.add("fault.interrupted", s.c.interrupted);
        st.hit(&format!("parser.{}", case.base.cfg.kind.name()));
        if case.expect.is_some() {
            st.hit(&format!(
                "corruption.{}",
                case.corruption.split(':').next().unwrap_or("?")
            ));
        }
        let pname = case.base.cfg.kind.name();
        let mut violation = None;
        let mut nontrivial = false;
        match &got.outcome {
            Outcome::Syntax { line, column, msg } => {
                nontrivial = true;
                st.hit("outcome.syntax_error");
                if let Some(why) = range_check(&case.base.doc, case.binary, *line, *column) {
                    violation = Some(Violation {
                        check: "C08.range",
                        signature: format!("parser={pname} location outside the input for: {}", msg_class(msg)),
                        detail: format!("reported {line}:{column} ({msg}): {why}"),
                    });
                } else if let Some((el, lo, hi)) = case.expect {
                    st.hit("exact.rejected");
                    if *line != el || *column < lo || *column > hi {
                        violation = Some(Violation {
                            check: "C08.token",
                            signature: format!(
                                "parser={pname} error not located on the corrupted token ({}) for: {}",
                                case.corruption.split(':').next().unwrap_or(""),
                                msg_class(msg)
                            ),
                            detail: format!(
                                "corruption [{}]; expected line {el} column {lo}..={hi}, reported {line}:{column} ({msg})",
                                case.corruption
                            ),
                        });
                    }
                }
            }
            Outcome::Panic(p) => {
                if p.file.ends_with("flussab/src/text.rs") {
                    violation = Some(Violation {
                        check: "C08.no_location",
                        signature: format!("parser={pname} panic while computing the error location ({})", p.msg),
                        detail: p.short(),
                    });
                } else {
                    st.hit("note.panic_elsewhere");
                }
            }
            Outcome::CleanEnd => {
                if case.expect.is_some() {
                    st.hit("exact.not_rejected");
                }
            }
            Outcome::Io { .. } => {}
        }
        if s.budget_exceeded {
            violation = None;
        }
        let mut k = Fnv::default();
        k.str(&case.base.cfg.encode());
        k.str(&case.base.ctor.encode());
        k.bytes(&case.base.doc);
        k.u64(s.trace.0);
        let mut t = Fnv::default();
        t.u64(s.trace.0);
        t.str(&got.outcome.short());
        RunOut {
            violation,
            key: if nontrivial { Some(k.0) } else { None },
            trace: t.0,
        }
    }
    fn shrink(&self, case: &LocCase) -> Vec<LocCase> {
        let mut out = vec![];
        for b in shrink_case(&case.base) {
            // for the exact clause the document must stay as it is (the expectation refers to it)
            if case.expect.is_some() && b.doc != case.base.doc {
                continue;
            }
            let mut c = case.clone();
            c.base = b;
            out.push(c);
        }
        out
    }
    fn encode(&self, case: &LocCase, kv: &mut Kv) {
        let c = &case.base;
        kv.put("case.parser", c.cfg.encode());
        kv.put("case.parser_readable", c.cfg.describe());
        kv.put("case.class", c.class);
        kv.put("case.doc", hex(&c.doc));
        kv.put("case.doc_readable", show_bytes(&c.doc));
        kv.put("case.ctor", c.ctor.encode());
        kv.put("case.junk", hex(&c.junk));
        kv.put("case.src", c.src.encode());
        kv.put("case.binary", case.binary);
        kv.put("case.corruption", &case.corruption);
        kv.put(
            "case.expect",
            case.expect
                .map_or("-".to_string(), |(l, a, b)| format!("{l}:{a}:{b}")),
        );
    }
    fn decode(&self, kv: &Kv) -> Option<LocCase> {
        let expect = match kv.get("case.expect")? {
            "-" => None,
            s => {
                let p: Vec<usize> = s.split(':').filter_map(|x| x.parse().ok()).collect();
                if p.len() != 3 {
                    return None;
                }
                Some((p[0], p[1], p[2]))
            }
        };
        Some(LocCase {
            base: ParseCase {
                cfg: PCfg::decode(kv.get("case.parser")?)?,
                doc: kv.get_bytes("case.doc")?,
                class: kv.get("case.class")?.parse().ok()?,
                spans: vec![],
                ctor: crate::drive::Ctor::decode(kv.get("case.ctor")?)?,
                junk: kv.get_bytes("case.junk")?,
                src: crate::source::SourceCfg::decode(kv.get("case.src")?)?,
                only_k: None,
                fault_kind: 0,
            },
            expect,
            corruption: kv.get("case.corruption").unwrap_or("").to_string(),
            binary: kv.get("case.binary")? == "true",
        })
    }
    fn sample(&self, case: &LocCase) -> Json {
        Json::obj(vec![
            ("parser", Json::s(case.base.cfg.describe())),
            ("input", Json::s(show_bytes(&case.base.doc))),
            ("corruption", Json::s(case.corruption.clone())),
            (
                "expected_location",
                Json::s(case.expect.map_or("range clause only".to_string(), |(l, a, b)| {
                    format!("line {l}, column {a}..={b}")
                })),
            ),
            ("ctor", Json::s(case.base.ctor.encode())),
            ("source_plan", Json::s(case.base.src.encode())),
        ])
    }
}
