//! C13 (decimal scanners: exact, fast == simple, for every amount of buffered data) and
//! C16 (whitespace / newline / next-newline / fixed helpers: exact offset, nothing consumed,
//! no request beyond what decides), on a real `DeferredReader` over a `SimSource`.

use std::rc::Rc;

use flussab::text;
use flussab::DeferredReader;

use crate::crash;
use crate::framework::{Meta, Prop, RunOut, Stats, Tier, Violation};
use crate::json::{hex, show_bytes, Json, Kv};
use crate::rng::{Fnv, Rng};
use crate::source::{gen_plan, CallRes, SimSource, SourceCfg, Step};

pub const TYPES: [&str; 12] = [
    "i8", "u8", "i16", "u16", "i32", "u32", "i64", "u64", "i128", "u128", "isize", "usize",
];

fn type_min_max(ty: u8) -> (String, String) {
    macro_rules! mm {
        ($t:ty) => {
            (<$t>::MIN.to_string(), <$t>::MAX.to_string())
        };
    }
    match ty {
        0 => mm!(i8),
        1 => mm!(u8),
        2 => mm!(i16),
        3 => mm!(u16),
        4 => mm!(i32),
        5 => mm!(u32),
        6 => mm!(i64),
        7 => mm!(u64),
        8 => mm!(i128),
        9 => mm!(u128),
        10 => mm!(isize),
        _ => mm!(usize),
    }
}

#[derive(Clone, Debug)]
pub struct ScanCase {
    pub ty: u8,
    /// scanner family: false = ascii_digits*, true = signed_ascii_digits*
    pub signed_fn: bool,
    pub data: Vec<u8>,
    pub offset: usize,
    /// bytes buffered before the call
    pub buffered: usize,
    /// chunk size in effect during the call
    pub chunk: usize,
    /// read plan for everything after the first `buffered` bytes
    pub rest: SourceCfg,
}

/// (value as decimal string or None on overflow, offset) or the panic text.
type ScanRes = Result<(Option<String>, usize), String>;

pub fn call_scanner(r: &mut DeferredReader, ty: u8, signed_fn: bool, multi: bool, offset: usize) -> ScanRes {
    macro_rules! go {
        ($t:ty) => {{
            let res: (Option<$t>, usize) = match (signed_fn, multi) {
                (false, false) => text::ascii_digits::<$t>(r, offset),
                (false, true) => text::ascii_digits_multi::<$t>(r, offset),
                (true, false) => text::signed_ascii_digits::<$t>(r, offset),
                (true, true) => text::signed_ascii_digits_multi::<$t>(r, offset),
            };
            (res.0.map(|v| v.to_string()), res.1)
        }};
    }
    crash::catch(|| match ty {
        0 => go!(i8),
        1 => go!(u8),
        2 => go!(i16),
        3 => go!(u16),
        4 => go!(i32),
        5 => go!(u32),
        6 => go!(i64),
        7 => go!(u64),
        8 => go!(i128),
        9 => go!(u128),
        10 => go!(isize),
        _ => go!(usize),
    })
    .map_err(|p| p.short())
}

/// Reference reading by decimal-string comparison (no wide arithmetic).
pub fn reference_scan(data: &[u8], offset: usize, signed_fn: bool, ty: u8) -> (Option<String>, usize) {
    let at = |i: usize| data.get(i).copied();
    let mut pos = offset;
    let mut negative = false;
    if signed_fn && at(pos) == Some(b'-') && matches!(at(pos + 1), Some(b'0'..=b'9')) {
        negative = true;
        pos += 1;
    }
    let start = pos;
    while matches!(at(pos), Some(b'0'..=b'9')) {
        pos += 1;
    }
    let digits = if start <= data.len() {
        &data[start.min(data.len())..pos.min(data.len())]
    } else {
        &[][..]
    };
    let stripped: &[u8] = {
        let nz = digits.iter().position(|&d| d != b'0').unwrap_or(digits.len());
        &digits[nz..]
    };
    let mag = if stripped.is_empty() {
        "0".to_string()
    } else {
        String::from_utf8(stripped.to_vec()).unwrap()
    };
    let (min, max) = type_min_max(ty);
    let le = |a: &str, b: &str| a.len() < b.len() || (a.len() == b.len() && a <= b);
    let value = if mag == "0" {
        Some("0".to_string())
    } else if negative {
        let min_mag = min.trim_start_matches('-');
        if min.starts_with('-') && le(&mag, min_mag) {
            Some(format!("-{mag}"))
        } else {
            None
        }
    } else if le(&mag, &max) {
        Some(mag)
    } else {
        None
    };
    (value, pos)
}

fn prepared_reader<'a>(case: &ScanCase, data: &Rc<Vec<u8>>) -> (DeferredReader<'a>, SimSource) {
    prepared_reader_poisoned(case, data, None)
}

/// With `poison`: the source scribbles that byte over the unused rest of every slice it is
/// offered, and the first read is offered 16 bytes more than it delivers, so that an over-read
/// past the buffered data sees the poison instead of running off the heap block.
pub fn prepared_reader_poisoned<'a>(
    case: &ScanCase,
    data: &Rc<Vec<u8>>,
    poison: Option<u8>,
) -> (DeferredReader<'a>, SimSource) {
    let mut cfg = case.rest.clone();
    cfg.poison = poison;
    let b = case.buffered.min(data.len());
    if b > 0 {
        cfg.steps.insert(0, Step::Deliver(b));
    }
    let src = SimSource::new(data.clone(), cfg);
    let mut r = DeferredReader::from_read(src.clone());
    if b > 0 {
        r.set_chunk_size(if poison.is_some() { b + 16 } else { b });
        let _ = r.request(b);
    }
    r.set_chunk_size(case.chunk.max(1));
    (r, src)
}

pub struct C13;

fn gen_number(rng: &mut Rng, ty: u8) -> Vec<u8> {
    let (min, max) = type_min_max(ty);
    let mut s: Vec<u8> = vec![];
    match rng.below(10) {
        0..=2 => {
            // near the type's limits: MIN/MAX +- {0,1} (+-1 via last digit tweak), maybe leading zeros
            let base = if rng.chance(1, 2) { min } else { max };
            let neg = base.starts_with('-');
            let mut digits: Vec<u8> = base.trim_start_matches('-').bytes().collect();
            match rng.below(4) {
                0 => {}
                1 => {
                    // +1 in magnitude on the last digit (carry ignored: still near the limit)
                    if let Some(l) = digits.last_mut() {
                        if *l < b'9' {
                            *l += 1
                        } else {
                            *l = b'0';
                            digits.insert(0, b'1');
                        }
                    }
                }
                2 => {
                    if let Some(l) = digits.last_mut() {
                        if *l > b'0' {
                            *l -= 1
                        }
                    }
                }
                _ => digits.push(*rng.pick(b"0123456789")),
            }
            if neg || rng.chance(1, 6) {
                s.push(b'-');
            }
            if rng.chance(1, 4) {
                for _ in 0..1 + rng.below(9) {
                    s.push(b'0');
                }
            }
            s.extend(digits);
        }
        3 => {
            if rng.chance(1, 2) {
                s.push(b'-');
            }
        }
        4 => {
            // fixed-width fields: a representable (or just not representable) value padded with
            // many zeros -- the digit count says nothing about the magnitude
            let base = if rng.chance(1, 2) { min } else { max };
            let neg = base.starts_with('-') || rng.chance(1, 8);
            let lim: Vec<u8> = base.trim_start_matches('-').bytes().collect();
            let value: Vec<u8> = match rng.below(5) {
                0 => lim.clone(),
                1 => vec![*rng.pick(b"0123456789")],
                2 => vec![],
                3 => {
                    // one more digit than the limit: overflows whatever the padding
                    let mut v = lim.clone();
                    v.push(*rng.pick(b"0123456789"));
                    v
                }
                _ => {
                    // fewer digits than the limit: always representable
                    let n = rng.below(lim.len());
                    (0..n).map(|_| *rng.pick(b"0123456789")).collect()
                }
            };
            if neg {
                s.push(b'-');
            }
            let zeros = *rng.pick(&[
                1usize, 2, 5, 6, 7, 8, 9, 10, 13, 14, 15, 16, 17, 18, 23, 24, 25, 31, 32, 33, 36, 37, 38, 39, 40, 41, 47, 48,
                64, 100, 300,
            ]);
            let zeros = if cfg!(miri) { zeros.min(41) } else { zeros };
            s.extend(std::iter::repeat(b'0').take(zeros));
            s.extend(value);
        }
        _ => {
            if rng.chance(1, 3) {
                s.push(b'-');
            }
            let n = *rng.pick(&[0usize, 1, 1, 2, 3, 6, 7, 7, 8, 8, 9, 9, 10, 15, 16, 17, 19, 20, 21, 38, 39, 40, 45]);
            for i in 0..n {
                s.push(if i == 0 && rng.chance(1, 5) {
                    b'0'
                } else {
                    *rng.pick(b"0123456789")
                });
            }
        }
    }
    s
}

impl Prop for C13 {
    type Case = ScanCase;
    fn id(&self) -> &'static str {
        "C13"
    }
    fn meta(&self) -> Meta {
        Meta {
            level: "exploration",
            rule: "seeded byte string = random prefix (scan offset > 0 in most runs) + optional '-' + digit run of 0..45 digits (biased to 0,1,7,8,9,15,16,17 digits and to MIN/MAX+-{0,1} of the type, with/without leading zeros; fixed-width fields: 1..300 zeros in front of a type limit, a shorter value, nothing, or limit x 10) + terminator (all 256 byte values, biased to separators, '-', >=0x80, end of input) + random tail; a real DeferredReader over a SimSource is brought to exactly b buffered bytes (b uniform in 0..=len; b selects the 8-byte or the byte-wise path) and the rest arrives under a random plan; both the *_multi and the simple variant are called for all 12 integer types and both scanner families and compared with a decimal-string reference; non-trivial iff the digit run is non-empty; distinct = distinct (type, family, bytes, offset, b)",
            assumptions: vec![
                "reference reading compares decimal strings (strip leading zeros, length then lexicographic order against the type's MIN/MAX strings)",
                "the 8-byte kernel is sampled, not enumerated: the evidence reports how many of the 9*256 (digit count, terminator byte) kernel cases were hit",
            ],
            real: vec!["flussab::text::{ascii_digits, ascii_digits_multi, signed_ascii_digits, signed_ascii_digits_multi}", "flussab::DeferredReader"],
            stub: vec!["byte source (SimSource)"],
        }
    }
    fn runs(&self, tier: Tier) -> u64 {
        match (tier, cfg!(debug_assertions)) {
            (Tier::Quick, true) => 4_000_000,
            (Tier::Quick, false) => 4_000_000,
            (Tier::Thorough, true) => 250_000_000,
            (Tier::Thorough, false) => 250_000_000,
        }
    }
    fn gen(&self, rng: &mut Rng, _tier: Tier) -> ScanCase {
        let ty = rng.below(12) as u8;
        let signed_fn = rng.chance(3, 5);
        let mut data = vec![];
        let plen = match rng.below(4) {
            0 => 0,
            _ => rng.small(12),
        };
        for _ in 0..plen {
            data.push(*rng.pick(b"0123456789- \nxy"));
        }
        let offset = plen;
        let kernel_sweep = rng.chance(1, 5);
        let num = if kernel_sweep {
            // kernel sweep: d digits (0..=8) followed by a uniformly random terminator byte, with
            // at least 8 bytes buffered at the scan position
            let mut s: Vec<u8> = vec![];
            if signed_fn && rng.chance(1, 2) {
                s.push(b'-');
            }
            for _ in 0..rng.below(9) {
                s.push(*rng.pick(b"0123456789"));
            }
            s
        } else {
            gen_number(rng, ty)
        };
        data.extend_from_slice(&num);
        // terminator + tail
        match if kernel_sweep { 1 } else { rng.below(8) } {
            0 => {} // end of input
            1 => data.push(rng.next_u64() as u8),
            2 => data.push(*rng.pick(&[0x80u8, 0xca, 0xcf, 0xff, 0xb0, 0xb9, 0x2f, 0x3a, 0x00, 0x10])),
            _ => data.push(*rng.pick(b" \n\t\r/:-x}")),
        }
        if data.len() > offset + num.len() {
            let tail = if kernel_sweep { 9 } else { rng.small(14) };
            for _ in 0..tail {
                data.push(if rng.chance(1, 2) {
                    *rng.pick(b"0123456789")
                } else {
                    rng.next_u64() as u8
                });
            }
        }
        let offset = if rng.chance(1, 12) {
            rng.below(data.len() + 2)
        } else {
            offset
        };
        // under Miri the memory oracle only speaks when a raw load crosses the end of the buffered
        // data (which the preparation below makes the end of the heap block): aim there
        let buffered = match if kernel_sweep {
            0
        } else if cfg!(miri) && rng.chance(3, 5) {
            2
        } else {
            rng.below(6)
        } {
            0 => data.len(),
            1 => 0,
            2 => (offset + *rng.pick(&[6usize, 7, 8, 8, 9, 9, 15, 16, 17])).min(data.len()),
            _ => rng.below(data.len() + 1),
        };
        let interrupts = rng.weighted(&[6, 2, 1]) as u8;
        let rest = gen_plan(rng, data.len(), &[], interrupts);
        ScanCase {
            ty,
            signed_fn,
            data,
            offset,
            buffered,
            chunk: *rng.pick(&[1usize, 1, 2, 3, 7, 8, 9, 16, 64, 16384]),
            rest,
        }
    }
    fn exec(&self, case: &ScanCase, st: &mut Stats) -> RunOut {
        let data = Rc::new(case.data.clone());
        let expect = reference_scan(&data, case.offset, case.signed_fn, case.ty);
        let mut violation = None;
        let mut t = Fnv::default();
        let tyname = TYPES[case.ty as usize % 12];
        let fam = if case.signed_fn { "signed_ascii_digits" } else { "ascii_digits" };
        let mut results: Vec<ScanRes> = vec![];
        for multi in [true, false] {
            let (mut r, src) = prepared_reader(case, &data);
            let buffered_now = r.buf_len();
            let fast = multi && buffered_now >= case.offset + 8;
            let before: Vec<u8> = r.buf().to_vec();
            let res = call_scanner(&mut r, case.ty, case.signed_fn, multi, case.offset);
            let fname = format!("{fam}{}::<{tyname}>", if multi { "_multi" } else { "" });
            st.steps += 1 + src.state().c.calls;
            if multi {
                st.hit(if fast { "reach.fast_path_precondition_true" } else { "reach.fast_path_precondition_false" });
                if fast {
                    // which kernel case is this?
                    let p = case.offset
                        + (case.signed_fn && data.get(case.offset) == Some(&b'-')) as usize;
                    let word: Vec<u8> = data[p.min(data.len())..(case.offset + 8).min(data.len())].to_vec();
                    let d = word.iter().take_while(|b| b.is_ascii_digit()).count();
                    let idx = if d < word.len() { d * 256 + word[d] as usize } else { 8 * 256 };
                    st.set_bit(idx);
                }
            }
            match &res {
                Err(p) => {
                    violation = Some(Violation {
                        check: "C13.panic",
                        signature: format!("{fname} panics"),
                        detail: format!(
                            "input {:?} offset {} buffered {}: {p}",
                            show_bytes(&data),
                            case.offset,
                            buffered_now
                        ),
                    });
                }
                Ok((val, off)) => {
                    t.str(&format!("{val:?}{off}"));
                    if *off != expect.1 {
                        violation = Some(Violation {
                            check: "C13.offset",
                            signature: format!("{fname} returns a wrong offset"),
                            detail: format!(
                                "input {:?} offset {} buffered {}: returned offset {off}, expected {}",
                                show_bytes(&data),
                                case.offset,
                                buffered_now,
                                expect.1
                            ),
                        });
                    } else if *val != expect.0 {
                        violation = Some(Violation {
                            check: "C13.value",
                            signature: format!("{fname} returns a wrong value / overflow verdict"),
                            detail: format!(
                                "input {:?} offset {} buffered {}: returned {val:?}, expected {:?}",
                                show_bytes(&data),
                                case.offset,
                                buffered_now,
                                expect.0
                            ),
                        });
                    } else if r.position() != 0 || !r.buf().starts_with(&before) {
                        violation = Some(Violation {
                            check: "C13.consumed",
                            signature: format!("{fname} consumed input or disturbed the buffer"),
                            detail: format!("position()={}", r.position()),
                        });
                    }
                }
            }
            let s = src.state();
            st.add("fault.short_read", s.c.short_reads);
            st.add("fault.interrupted", s.c.interrupted);
            if s.budget_exceeded {
                violation = None;
            }
            t.u64(s.trace.0);
            results.push(res);
            if violation.is_some() {
                break;
            }
        }
        if violation.is_none() && results.len() == 2 && results[0] != results[1] {
            violation = Some(Violation {
                check: "C13.fast_ne_simple",
                signature: format!("{fam}_multi::<{tyname}> differs from the simple variant"),
                detail: format!("{:?} vs {:?}", results[0], results[1]),
            });
        }
        let nontrivial = expect.1 > case.offset;
        let key = if nontrivial {
            let mut k = Fnv::default();
            k.byte(case.ty);
            k.byte(case.signed_fn as u8);
            k.bytes(&case.data);
            k.u64(case.offset as u64);
            k.u64(case.buffered as u64);
            Some(k.0)
        } else {
            None
        };
        RunOut {
            violation,
            key,
            trace: t.0,
        }
    }
    fn shrink(&self, case: &ScanCase) -> Vec<ScanCase> {
        let mut out = vec![];
        if case.rest.rank() > 0 {
            let mut c = case.clone();
            c.rest = SourceCfg::one_shot();
            out.push(c);
        }
        if case.offset > 0 && case.offset <= case.data.len() {
            let mut c = case.clone();
            c.data.drain(..case.offset);
            c.buffered = c.buffered.saturating_sub(case.offset);
            c.offset = 0;
            out.push(c);
        }
        for b in [0, case.data.len(), case.buffered / 2, case.buffered.saturating_sub(1)] {
            if b != case.buffered && b < case.buffered.max(1) || b == case.data.len() && case.buffered != b {
                let mut c = case.clone();
                c.buffered = b;
                out.push(c);
            }
        }
        for i in (case.offset..case.data.len()).rev() {
            let mut c = case.clone();
            c.data.remove(i);
            c.buffered = c.buffered.min(c.data.len());
            out.push(c);
        }
        if case.chunk != 1 {
            let mut c = case.clone();
            c.chunk = 1;
            out.push(c);
        }
        out
    }
    fn encode(&self, case: &ScanCase, kv: &mut Kv) {
        kv.put("case.type", TYPES[case.ty as usize % 12]);
        kv.put("case.ty", case.ty);
        kv.put("case.signed_fn", case.signed_fn);
        kv.put("case.data", hex(&case.data));
        kv.put("case.data_readable", show_bytes(&case.data));
        kv.put("case.offset", case.offset);
        kv.put("case.buffered", case.buffered);
        kv.put("case.chunk", case.chunk);
        kv.put("case.rest", case.rest.encode());
    }
    fn decode(&self, kv: &Kv) -> Option<ScanCase> {
        Some(ScanCase {
            ty: kv.get("case.ty")?.parse().ok()?,
            signed_fn: kv.get("case.signed_fn")? == "true",
            data: kv.get_bytes("case.data")?,
            offset: kv.get_usize("case.offset")?,
            buffered: kv.get_usize("case.buffered")?,
            chunk: kv.get_usize("case.chunk")?,
            rest: SourceCfg::decode(kv.get("case.rest")?)?,
        })
    }
    fn sample(&self, case: &ScanCase) -> Json {
        Json::obj(vec![
            (
                "scanner",
                Json::s(format!(
                    "{}[_multi]::<{}>",
                    if case.signed_fn { "signed_ascii_digits" } else { "ascii_digits" },
                    TYPES[case.ty as usize % 12]
                )),
            ),
            ("input", Json::s(show_bytes(&case.data))),
            ("offset", Json::U(case.offset as u64)),
            ("buffered_before_call", Json::U(case.buffered as u64)),
            ("chunk", Json::U(case.chunk as u64)),
            ("rest_plan", Json::s(case.rest.encode())),
        ])
    }
}

// ------------------------------------------------------------------------------------------- C16

#[derive(Clone, Debug)]
pub struct HelperCase {
    /// 0 tabs_or_spaces, 1 newline, 2 next_newline, 3 fixed
    pub helper: u8,
    pub data: Vec<u8>,
    pub offset: usize,
    pub pattern: Vec<u8>,
    pub buffered: usize,
    pub chunk: usize,
    pub rest: SourceCfg,
}

pub struct C16;

const HELPERS: [&str; 4] = ["tabs_or_spaces", "newline", "next_newline", "fixed"];

/// Expected offset and `need`: the number of bytes from the start of the stream that must be
/// available to decide (None: the decision needs the end of input).
pub fn reference_helper(h: u8, data: &[u8], offset: usize, pat: &[u8]) -> (usize, Option<usize>) {
    let at = |i: usize| data.get(i).copied();
    match h {
        0 => {
            let mut o = offset;
            while matches!(at(o), Some(b' ') | Some(b'\t')) {
                o += 1;
            }
            (o, if o < data.len() { Some(o + 1) } else { None })
        }
        1 => match at(offset) {
            Some(b'\n') => (offset + 1, Some(offset + 1)),
            Some(b'\r') => match at(offset + 1) {
                Some(b'\n') => (offset + 2, Some(offset + 2)),
                Some(_) => (offset, Some(offset + 2)),
                None => (offset, None),
            },
            Some(_) => (offset, Some(offset + 1)),
            None => (offset, None),
        },
        2 => {
            if offset >= data.len() {
                return (offset, None);
            }
            match data[offset..].iter().position(|&b| b == b'\n') {
                Some(i) => (offset + i + 1, Some(offset + i + 1)),
                None => (data.len(), None),
            }
        }
        _ => {
            for (i, &p) in pat.iter().enumerate() {
                match at(offset + i) {
                    Some(b) if b == p => {}
                    Some(_) => return (offset, Some(offset + i + 1)),
                    None => return (offset, None),
                }
            }
            (offset + pat.len(), Some(if pat.is_empty() { 0 } else { offset + pat.len() }))
        }
    }
}

impl Prop for C16 {
    type Case = HelperCase;
    fn id(&self) -> &'static str {
        "C16"
    }
    fn meta(&self) -> Meta {
        Meta {
            level: "exploration",
            rule: "seeded strings of 0..24 bytes over {space, tab, CR, LF, 'a', 'p', 0x80} plus the +-1 / high-bit neighbours of those bytes and occasional arbitrary bytes x start offset (0..len+1) x helper in {tabs_or_spaces, newline, next_newline, fixed} x (for fixed) pattern in {empty, prefix of the input at the offset, proper extension of the remaining input, mismatch at position i, random} x amount of pre-buffered data x read plan (incl. chunk 1 / one byte per read, under which delivered bytes == requested bytes); oracle = reference scanner on the full string; request-minimality is read off the source log: every read() issued during the call must have been issued while fewer than `need` bytes of the stream were buffered; non-trivial iff the helper had to look at at least one byte; distinct = distinct (helper, string, offset, pattern, pre-buffered amount)",
            assumptions: vec![
                "the small space is sampled, not enumerated; the evidence reports the number of distinct (helper, string, offset, pattern) tuples reached",
            ],
            real: vec!["flussab::text::{tabs_or_spaces, newline, next_newline, fixed}", "flussab::DeferredReader"],
            stub: vec!["byte source (SimSource)"],
        }
    }
    fn runs(&self, tier: Tier) -> u64 {
        match (tier, cfg!(debug_assertions)) {
            (Tier::Quick, true) => 4_000_000,
            (Tier::Quick, false) => 2_000_000,
            (Tier::Thorough, true) => 250_000_000,
            (Tier::Thorough, false) => 80_000_000,
        }
    }
    fn gen(&self, rng: &mut Rng, _tier: Tier) -> HelperCase {
        let helper = rng.below(4) as u8;
        let len = match rng.below(4) {
            0 => rng.below(4),
            _ => rng.below(25),
        };
        let alpha: &[u8] = match helper {
            0 => b"  \t\ta\n\r",
            1 => b"\r\r\n\n a",
            2 => b"aaap \n\r\x80",
            _ => b"app \n\r\t\x80",
        };
        // neighbours (+-1, high bit) of the bytes the helpers look for, and now and then any byte:
        // word-at-a-time tricks typically go wrong exactly there
        const NEAR: &[u8] = b"\x08\x0b\x0c\x0e\x1f\x21\x89\x8a\x8d\xa0\x00\xff";
        let data: Vec<u8> = (0..len)
            .map(|_| match rng.below(12) {
                0 => *rng.pick(NEAR),
                1 if rng.chance(1, 2) => rng.next_u64() as u8,
                _ => *rng.pick(alpha),
            })
            .collect();
        // long runs of what the helper passes over (several machine words of any width), then
        // something else: word-at-a-time loops are decided there
        let mut data = data;
        if rng.chance(1, 5) {
            let run_alpha: &[u8] = match helper {
                0 => b"  \t",
                1 => b"\r\n",
                2 => b"aap\x80 ",
                _ => b"ap ",
            };
            let at = rng.below(data.len() + 1);
            let n = 3 + rng.small(40);
            let run: Vec<u8> = (0..n).map(|_| *rng.pick(run_alpha)).collect();
            data.splice(at..at, run);
        }
        let len = data.len();
        let offset = if rng.chance(1, 10) {
            len + rng.below(3)
        } else {
            rng.below(len + 1)
        };
        let rem: &[u8] = if offset <= len { &data[offset..] } else { &[] };
        let pattern: Vec<u8> = if helper != 3 {
            vec![]
        } else {
            match rng.below(6) {
                0 => vec![],
                1 => rem[..rng.below(rem.len() + 1)].to_vec(),
                2 => {
                    let mut p = rem.to_vec();
                    for _ in 0..1 + rng.below(3) {
                        p.push(*rng.pick(alpha));
                    }
                    p
                }
                3 if !rem.is_empty() => {
                    let n = 1 + rng.below(rem.len());
                    let mut p = rem[..n].to_vec();
                    let i = rng.below(n);
                    p[i] = if p[i] == b'a' { b'p' } else { b'a' };
                    p
                }
                _ => (0..rng.below(6)).map(|_| *rng.pick(alpha)).collect(),
            }
        };
        let buffered = match rng.below(4) {
            0 => 0,
            1 => len,
            _ => rng.below(len + 1),
        };
        let (chunk, rest) = if rng.chance(1, 2) {
            (1, SourceCfg::bytewise())
        } else {
            let interrupts = rng.weighted(&[6, 2, 1]) as u8;
            (
                *rng.pick(&[1usize, 2, 3, 8, 64, 16384]),
                gen_plan(rng, len, &[], interrupts),
            )
        };
        HelperCase {
            helper,
            data,
            offset,
            pattern,
            buffered,
            chunk,
            rest,
        }
    }
    fn exec(&self, case: &HelperCase, st: &mut Stats) -> RunOut {
        let data = Rc::new(case.data.clone());
        let (want_off, need) = reference_helper(case.helper, &data, case.offset, &case.pattern);
        let sc = ScanCase {
            ty: 0,
            signed_fn: false,
            data: case.data.clone(),
            offset: case.offset,
            buffered: case.buffered,
            chunk: case.chunk,
            rest: case.rest.clone(),
        };
        let (mut r, src) = prepared_reader(&sc, &data);
        let before: Vec<u8> = r.buf().to_vec();
        let log_before = src.state().log.len();
        let hname = HELPERS[case.helper as usize % 4];
        let res = crash::catch(|| match case.helper {
            0 => text::tabs_or_spaces(&mut r, case.offset),
            1 => text::newline(&mut r, case.offset),
            2 => text::next_newline(&mut r, case.offset),
            _ => text::fixed(&mut r, case.offset, &case.pattern),
        });
        let describe = || {
            format!(
                "{hname}(offset {}{}) on {:?} with {} bytes buffered",
                case.offset,
                if case.helper == 3 {
                    format!(", pattern {:?}", show_bytes(&case.pattern))
                } else {
                    String::new()
                },
                show_bytes(&data),
                before.len()
            )
        };
        let mut violation = None;
        let s = src.state();
        st.steps += 1 + (s.log.len() - log_before) as u64;
        st.hit(&format!("helper.{hname}"));
        match res {
            Err(p) => {
                violation = Some(Violation {
                    check: "C16.panic",
                    signature: format!("text::{hname} panics"),
                    detail: format!("{}: {}", describe(), p.short()),
                })
            }
            Ok(off) => {
                if off != want_off {
                    violation = Some(Violation {
                        check: "C16.offset",
                        signature: format!("text::{hname} returns a wrong offset"),
                        detail: format!("{}: returned {off}, expected {want_off}", describe()),
                    });
                } else if r.position() != 0 || !r.buf().starts_with(&before) {
                    violation = Some(Violation {
                        check: "C16.consumed",
                        signature: format!("text::{hname} consumed input"),
                        detail: format!("{}: position()={}", describe(), r.position()),
                    });
                } else {
                    for &(_, resc, delivered_before) in &s.log[log_before..] {
                        let over = match need {
                            Some(n) => delivered_before >= n,
                            None => false,
                        };
                        if over {
                            violation = Some(Violation {
                                check: "C16.over_request",
                                signature: format!(
                                    "text::{hname} requests more input than needed to decide"
                                ),
                                detail: format!(
                                    "{}: a read() ({resc:?}) was issued with {delivered_before} bytes already delivered, {} suffice",
                                    describe(),
                                    need.unwrap()
                                ),
                            });
                            break;
                        }
                        if matches!(resc, CallRes::Ok(_)) {
                            st.hit("reach.refill_during_helper");
                        }
                    }
                    if s.c.calls_after_end > 0 && violation.is_none() {
                        violation = Some(Violation {
                            check: "C16.over_request",
                            signature: format!("text::{hname} reads again after end of input"),
                            detail: describe(),
                        });
                    }
                }
            }
        }
        st.add("fault.one_byte_read", s.c.one_byte_reads);
        st.add("fault.interrupted", s.c.interrupted);
        if s.budget_exceeded {
            violation = None;
        }
        let nontrivial = need != Some(0) && case.offset <= data.len();
        let mut k = Fnv::default();
        k.byte(case.helper);
        k.bytes(&case.data);
        k.u64(case.offset as u64);
        k.bytes(&case.pattern);
        k.u64(before.len() as u64);
        let mut t = Fnv::default();
        t.u64(s.trace.0);
        t.u64(want_off as u64);
        RunOut {
            violation,
            key: if nontrivial { Some(k.0) } else { None },
            trace: t.0,
        }
    }
    fn shrink(&self, case: &HelperCase) -> Vec<HelperCase> {
        let mut out = vec![];
        if case.rest.rank() > 2 || case.chunk != 1 {
            let mut c = case.clone();
            c.rest = SourceCfg::bytewise();
            c.chunk = 1;
            out.push(c);
        }
        if case.buffered > 0 {
            let mut c = case.clone();
            c.buffered = 0;
            out.push(c);
        }
        for i in (0..case.data.len()).rev() {
            let mut c = case.clone();
            c.data.remove(i);
            if i < c.offset {
                c.offset -= 1;
            }
            c.buffered = c.buffered.min(c.data.len());
            out.push(c);
        }
        for i in (0..case.pattern.len()).rev() {
            let mut c = case.clone();
            c.pattern.remove(i);
            out.push(c);
        }
        out
    }
    fn encode(&self, case: &HelperCase, kv: &mut Kv) {
        kv.put("case.helper", case.helper);
        kv.put("case.helper_name", HELPERS[case.helper as usize % 4]);
        kv.put("case.data", hex(&case.data));
        kv.put("case.data_readable", show_bytes(&case.data));
        kv.put("case.offset", case.offset);
        kv.put("case.pattern", hex(&case.pattern));
        kv.put("case.buffered", case.buffered);
        kv.put("case.chunk", case.chunk);
        kv.put("case.rest", case.rest.encode());
    }
    fn decode(&self, kv: &Kv) -> Option<HelperCase> {
        Some(HelperCase {
            helper: kv.get("case.helper")?.parse().ok()?,
            data: kv.get_bytes("case.data")?,
            offset: kv.get_usize("case.offset")?,
            pattern: kv.get_bytes("case.pattern")?,
            buffered: kv.get_usize("case.buffered")?,
            chunk: kv.get_usize("case.chunk")?,
            rest: SourceCfg::decode(kv.get("case.rest")?)?,
        })
    }
    fn sample(&self, case: &HelperCase) -> Json {
        Json::obj(vec![
            ("helper", Json::s(HELPERS[case.helper as usize % 4])),
            ("input", Json::s(show_bytes(&case.data))),
            ("offset", Json::U(case.offset as u64)),
            ("pattern", Json::s(show_bytes(&case.pattern))),
            ("buffered_before_call", Json::U(case.buffered as u64)),
            ("chunk", Json::U(case.chunk as u64)),
            ("rest_plan", Json::s(case.rest.encode())),
        ])
    }
}

// ------------------------------------------------------------------------------------ C13 (loop)

/// The scanners used the way a tokenizer uses them: scan, advance over the token and a separator,
/// scan again ... on ONE reader, so that state is carried from token to token (cursor deep inside
/// the buffer, realigns, refills in the middle of a token, chunk size changes, marks).
#[derive(Clone, Debug)]
pub struct LoopCase {
    pub ty: u8,
    pub signed_fn: bool,
    pub data: Vec<u8>,
    pub chunk: usize,
    pub src: SourceCfg,
    /// per token: bit 0 = use the _multi variant, bits 1.. = scan offset (0..=3) inside the separator run
    pub choices: Vec<u8>,
    /// (token index, new chunk size): chunk size changes in mid-stream
    pub rechunk: Vec<(usize, usize)>,
}

pub struct C13Loop;

impl Prop for C13Loop {
    type Case = LoopCase;
    fn id(&self) -> &'static str {
        "C13t"
    }
    fn meta(&self) -> Meta {
        Meta {
            level: "exploration",
            rule: "tokenizer loops: a stream of 3..200 (rarely 5000) decimal tokens (all integer types, limits, 7/8/9/16/17 digits, leading zeros, '-') separated by 1..4 arbitrary non-digit bytes is scanned token by token on ONE DeferredReader over a SimSource (read plan, chunk size 1..65536, chunk size changes in mid-stream): scan at a small offset into the separator run with the _multi or the simple variant, compare value and offset with the decimal-string reference at the absolute position, advance over the token and one separator, repeat; non-trivial iff at least two tokens were scanned after a refill; distinct = distinct (type, family, data, plan)",
            assumptions: vec!["same decimal-string reference as the single-call check"],
            real: vec!["flussab::text::{ascii_digits, ascii_digits_multi, signed_ascii_digits, signed_ascii_digits_multi}", "flussab::DeferredReader (advance / realign / refill between scans)"],
            stub: vec!["byte source (SimSource)"],
        }
    }
    fn runs(&self, tier: Tier) -> u64 {
        match (tier, cfg!(debug_assertions)) {
            (Tier::Quick, true) => 200_000,
            (Tier::Quick, false) => 200_000,
            (Tier::Thorough, true) => 12_000_000,
            (Tier::Thorough, false) => 12_000_000,
        }
    }
    fn gen(&self, rng: &mut Rng, _tier: Tier) -> LoopCase {
        let ty = rng.below(12) as u8;
        let signed_fn = rng.chance(3, 5);
        let ntok = if !cfg!(miri) && rng.chance(1, 300) {
            rng.range(2000, 5000)
        } else if cfg!(miri) {
            rng.range(2, 8)
        } else {
            rng.range(3, 200)
        };
        let mut data = vec![];
        let mut choices = vec![];
        for _ in 0..ntok {
            let nsep = 1 + rng.below(4);
            for _ in 0..nsep {
                data.push(match rng.below(6) {
                    0 => rng.next_u64() as u8,
                    1 => *rng.pick(&[0x2fu8, 0x3a, 0xb0, 0xb9, 0x00, 0xff]),
                    _ => *rng.pick(b" \n\t,;:x-"),
                });
                // separators must not be digits (they would merge tokens: still fine for the
                // reference, but keep the token structure)
                if data.last().map_or(false, |b| b.is_ascii_digit()) {
                    *data.last_mut().unwrap() = b' ';
                }
            }
            choices.push((rng.below(2) as u8) | ((rng.below(nsep.min(4)) as u8) << 1));
            data.extend(gen_number(rng, ty));
        }
        if rng.chance(1, 2) {
            data.push(b'\n');
        }
        let interrupts = rng.weighted(&[6, 2, 1]) as u8;
        let src = gen_plan(rng, data.len(), &[], interrupts);
        let nre = rng.below(3);
        LoopCase {
            ty,
            signed_fn,
            chunk: *rng.pick(&[1usize, 2, 3, 7, 8, 9, 16, 17, 64, 300, 4096, 16384, 65536]),
            src,
            choices,
            rechunk: (0..nre)
                .map(|_| (rng.below(ntok), *rng.pick(&[1usize, 4, 8, 16, 64, 1000, 16384])))
                .collect(),
            data,
        }
    }
    fn exec(&self, case: &LoopCase, st: &mut Stats) -> RunOut {
        let data = Rc::new(case.data.clone());
        let src = SimSource::new(data.clone(), case.src.clone());
        let mut r = DeferredReader::from_read(src.clone());
        r.set_chunk_size(case.chunk.max(1));
        let tyname = TYPES[case.ty as usize % 12];
        let fam = if case.signed_fn { "signed_ascii_digits" } else { "ascii_digits" };
        let mut abs = 0usize;
        let mut violation = None;
        let mut t = Fnv::default();
        let mut after_refill = 0u32;
        for (i, &ch) in case.choices.iter().enumerate() {
            for &(at, c) in &case.rechunk {
                if at == i {
                    r.set_chunk_size(c.max(1));
                }
            }
            let multi = ch & 1 == 1;
            let o = (ch >> 1) as usize;
            if abs + o > data.len() {
                break;
            }
            let calls_before = src.state().c.ok_calls;
            let res = call_scanner(&mut r, case.ty, case.signed_fn, multi, o);
            st.steps += 1;
            let expect = reference_scan(&data, abs + o, case.signed_fn, case.ty);
            let fname = format!("{fam}{}::<{tyname}>", if multi { "_multi" } else { "" });
            let ctx = |what: String| {
                format!(
                    "token #{i} at stream offset {} (scan offset {o}, {:?}...): {what}",
                    abs + o,
                    show_bytes(&data[(abs + o).min(data.len())..(abs + o + 24).min(data.len())])
                )
            };
            match res {
                Err(p) => {
                    violation = Some(Violation {
                        check: "C13.panic",
                        signature: format!("{fname} panics in a tokenizer loop"),
                        detail: ctx(p),
                    });
                }
                Ok((val, off)) => {
                    t.str(&format!("{val:?}{off}"));
                    if off + abs != expect.1 {
                        violation = Some(Violation {
                            check: "C13.offset",
                            signature: format!("{fname} returns a wrong offset in a tokenizer loop"),
                            detail: ctx(format!("returned offset {off}, expected {}", expect.1 - abs)),
                        });
                    } else if val != expect.0 {
                        violation = Some(Violation {
                            check: "C13.value",
                            signature: format!("{fname} returns a wrong value / overflow verdict in a tokenizer loop"),
                            detail: ctx(format!("returned {val:?}, expected {:?}", expect.0)),
                        });
                    } else if r.position() != abs {
                        violation = Some(Violation {
                            check: "C13.consumed",
                            signature: format!("{fname} consumed input"),
                            detail: ctx(format!("position()={} expected {abs}", r.position())),
                        });
                    }
                    if violation.is_none() {
                        if src.state().c.ok_calls > calls_before {
                            after_refill += 1;
                        }
                        // advance over the token and one separator byte, like a tokenizer would
                        let want = off + 1;
                        let have = r.request(want).len();
                        let n = want.min(have);
                        if n == 0 {
                            break;
                        }
                        r.advance(n);
                        abs += n;
                    }
                }
            }
            if violation.is_some() {
                break;
            }
        }
        let s = src.state();
        st.steps += s.c.calls;
        st.add("fault.short_read", s.c.short_reads);
        st.add("fault.interrupted", s.c.interrupted);
        if s.budget_exceeded {
            violation = None;
        }
        t.u64(s.trace.0);
        let mut k = Fnv::default();
        k.byte(case.ty);
        k.byte(case.signed_fn as u8);
        k.bytes(&case.data);
        k.u64(s.trace.0);
        RunOut {
            violation,
            key: if after_refill >= 2 { Some(k.0) } else { None },
            trace: t.0,
        }
    }
    fn shrink(&self, case: &LoopCase) -> Vec<LoopCase> {
        let mut out = vec![];
        if case.src.rank() > 0 {
            for p in [SourceCfg::one_shot(), SourceCfg::bytewise()] {
                if p.rank() < case.src.rank() {
                    let mut c = case.clone();
                    c.src = p;
                    out.push(c);
                }
            }
        }
        if !case.rechunk.is_empty() {
            let mut c = case.clone();
            c.rechunk.clear();
            out.push(c);
        }
        // cut the stream at separator boundaries (keep a prefix / drop a prefix)
        let n = case.choices.len();
        if n > 1 {
            let mut c = case.clone();
            c.choices.truncate(n / 2);
            out.push(c);
            let mut c = case.clone();
            c.choices.truncate(n - 1);
            out.push(c);
        }
        for keep in [case.data.len() / 2, case.data.len().saturating_sub(1)] {
            if keep < case.data.len() {
                let mut c = case.clone();
                c.data.truncate(keep);
                out.push(c);
            }
        }
        if case.chunk != 1 {
            let mut c = case.clone();
            c.chunk = 1;
            out.push(c);
        }
        out
    }
    fn encode(&self, case: &LoopCase, kv: &mut Kv) {
        kv.put("case.type", TYPES[case.ty as usize % 12]);
        kv.put("case.ty", case.ty);
        kv.put("case.signed_fn", case.signed_fn);
        kv.put("case.data", hex(&case.data));
        kv.put("case.data_readable", show_bytes(&case.data));
        kv.put("case.chunk", case.chunk);
        kv.put("case.src", case.src.encode());
        kv.put("case.choices", hex(&case.choices));
        kv.put(
            "case.rechunk",
            case.rechunk
                .iter()
                .map(|(a, b)| format!("{a}:{b}"))
                .collect::<Vec<_>>()
                .join(","),
        );
    }
    fn decode(&self, kv: &Kv) -> Option<LoopCase> {
        Some(LoopCase {
            ty: kv.get("case.ty")?.parse().ok()?,
            signed_fn: kv.get("case.signed_fn")? == "true",
            data: kv.get_bytes("case.data")?,
            chunk: kv.get_usize("case.chunk")?,
            src: SourceCfg::decode(kv.get("case.src")?)?,
            choices: kv.get_bytes("case.choices")?,
            rechunk: kv
                .get("case.rechunk")
                .unwrap_or("")
                .split(',')
                .filter(|s| !s.is_empty())
                .map(|s| {
                    let (a, b) = s.split_once(':')?;
                    Some((a.parse().ok()?, b.parse().ok()?))
                })
                .collect::<Option<Vec<_>>>()?,
        })
    }
    fn sample(&self, case: &LoopCase) -> Json {
        Json::obj(vec![
            (
                "scanner",
                Json::s(format!(
                    "{}[_multi]::<{}> in a tokenizer loop",
                    if case.signed_fn { "signed_ascii_digits" } else { "ascii_digits" },
                    TYPES[case.ty as usize % 12]
                )),
            ),
            ("tokens", Json::U(case.choices.len() as u64)),
            ("input", Json::s(show_bytes(&case.data))),
            ("chunk", Json::U(case.chunk as u64)),
            ("plan", Json::s(case.src.encode())),
        ])
    }
}

// ------------------------------------------------------------------------------------ C16 (loop)

/// The text helpers called repeatedly on ONE reader with advances in between.
#[derive(Clone, Debug)]
pub struct HelperLoopCase {
    pub data: Vec<u8>,
    pub chunk: usize,
    pub src: SourceCfg,
    /// per step: (helper, offset, pattern selector, advance selector)
    pub steps: Vec<(u8, u8, u8, u8)>,
}

pub struct C16Loop;

impl Prop for C16Loop {
    type Case = HelperLoopCase;
    fn id(&self) -> &'static str {
        "C16t"
    }
    fn meta(&self) -> Meta {
        Meta {
            level: "exploration",
            rule: "sessions of 2..60 helper calls (tabs_or_spaces / newline / next_newline / fixed, offsets 0..7, patterns taken from the upcoming input, extended or corrupted) on ONE DeferredReader over a SimSource (20..400 bytes, rarely 20 KB, over the whitespace/newline alphabet and its neighbours), advancing by part of the scanned span in between, so that the cursor sits deep inside the buffer, realigns and refills happen between and inside calls; each call is checked like a single C16 call, with positions taken relative to the stream; non-trivial iff a refill happened during at least one helper call; distinct = distinct (data, plan, session)",
            assumptions: vec!["same reference scanner as the single-call check"],
            real: vec!["flussab::text::{tabs_or_spaces, newline, next_newline, fixed}", "flussab::DeferredReader"],
            stub: vec!["byte source (SimSource)"],
        }
    }
    fn runs(&self, tier: Tier) -> u64 {
        match (tier, cfg!(debug_assertions)) {
            (Tier::Quick, true) => 400_000,
            (Tier::Quick, false) => 200_000,
            (Tier::Thorough, true) => 16_000_000,
            (Tier::Thorough, false) => 8_000_000,
        }
    }
    fn gen(&self, rng: &mut Rng, _tier: Tier) -> HelperLoopCase {
        let len = if !cfg!(miri) && rng.chance(1, 300) {
            rng.range(5_000, 40_000)
        } else {
            rng.range(20, 400)
        };
        const NEAR: &[u8] = b"\x08\x0b\x0c\x0e\x1f\x21\x89\x8a\x8d\xa0\x00\xff";
        let data: Vec<u8> = (0..len)
            .map(|_| match rng.below(14) {
                0 => *rng.pick(NEAR),
                1 if rng.chance(1, 2) => rng.next_u64() as u8,
                _ => *rng.pick(b"   \t\t\r\n\n\naap"),
            })
            .collect();
        let mut data = data;
        for _ in 0..rng.below(4) {
            // long runs of blanks / line ends / ordinary bytes
            let run_alpha: &[u8] = *rng.pick(&[&b"  \t"[..], b"\n", b"\r\n", b"aap"]);
            let at = rng.below(data.len() + 1);
            let n = 3 + rng.small(40);
            let run: Vec<u8> = (0..n).map(|_| *rng.pick(run_alpha)).collect();
            data.splice(at..at, run);
        }
        let len = data.len();
        let n = rng.range(2, 60);
        let steps = (0..n)
            .map(|_| {
                (
                    rng.below(4) as u8,
                    rng.small(7) as u8,
                    rng.below(8) as u8,
                    rng.below(4) as u8,
                )
            })
            .collect();
        let interrupts = rng.weighted(&[6, 2, 1]) as u8;
        HelperLoopCase {
            chunk: *rng.pick(&[1usize, 1, 2, 3, 8, 16, 64, 16384]),
            src: gen_plan(rng, len, &[], interrupts),
            data,
            steps,
        }
    }
    fn exec(&self, case: &HelperLoopCase, st: &mut Stats) -> RunOut {
        let data = Rc::new(case.data.clone());
        let src = SimSource::new(data.clone(), case.src.clone());
        let mut r = DeferredReader::from_read(src.clone());
        r.set_chunk_size(case.chunk.max(1));
        let mut abs = 0usize;
        let mut violation = None;
        let mut refills_inside = 0u32;
        let mut t = Fnv::default();
        for (i, &(h, o, psel, asel)) in case.steps.iter().enumerate() {
            let o = o as usize;
            let at = abs + o;
            let rem: &[u8] = if at <= data.len() { &data[at..] } else { &[] };
            let pattern: Vec<u8> = if h != 3 {
                vec![]
            } else {
                match psel {
                    0 => vec![],
                    1 | 2 => rem[..rem.len().min(1 + psel as usize * 2)].to_vec(),
                    3 => {
                        let mut p = rem[..rem.len().min(3)].to_vec();
                        p.push(b'q');
                        p
                    }
                    4 if !rem.is_empty() => {
                        let mut p = rem[..rem.len().min(4)].to_vec();
                        let k = p.len() - 1;
                        p[k] ^= 1;
                        p
                    }
                    _ => b"a ".to_vec(),
                }
            };
            let (want_abs, need_abs) = reference_helper(h, &data, at, &pattern);
            let hname = HELPERS[h as usize % 4];
            let log_before = src.state().log.len();
            let pos_before = r.position();
            let res = crash::catch(|| match h {
                0 => text::tabs_or_spaces(&mut r, o),
                1 => text::newline(&mut r, o),
                2 => text::next_newline(&mut r, o),
                _ => text::fixed(&mut r, o, &pattern),
            });
            st.steps += 1;
            let ctx = |what: String| {
                format!(
                    "step #{i} {hname}(offset {o}{}) at stream position {abs} ({:?}...): {what}",
                    if h == 3 { format!(", pattern {:?}", show_bytes(&pattern)) } else { String::new() },
                    show_bytes(&data[abs.min(data.len())..(abs + 16).min(data.len())])
                )
            };
            match res {
                Err(p) => {
                    violation = Some(Violation {
                        check: "C16.panic",
                        signature: format!("text::{hname} panics in a session"),
                        detail: ctx(p.short()),
                    });
                }
                Ok(off) => {
                    t.u64(off as u64);
                    if off + abs != want_abs {
                        violation = Some(Violation {
                            check: "C16.offset",
                            signature: format!("text::{hname} returns a wrong offset in a session"),
                            detail: ctx(format!("returned {off}, expected {}", want_abs - abs)),
                        });
                    } else if r.position() != pos_before {
                        violation = Some(Violation {
                            check: "C16.consumed",
                            signature: format!("text::{hname} consumed input"),
                            detail: ctx(String::new()),
                        });
                    } else {
                        let s = src.state();
                        if !s.budget_exceeded {
                            for &(_, resc, delivered_before) in &s.log[log_before..] {
                                if matches!(resc, CallRes::Ok(_)) {
                                    refills_inside += 1;
                                }
                                if let Some(n) = need_abs {
                                    if delivered_before >= n {
                                        violation = Some(Violation {
                                            check: "C16.over_request",
                                            signature: format!("text::{hname} requests more input than needed to decide (session)"),
                                            detail: ctx(format!("a read() ({resc:?}) was issued with {delivered_before} stream bytes already delivered, {n} suffice")),
                                        });
                                        break;
                                    }
                                }
                            }
                        }
                    }
                    if violation.is_none() {
                        // advance by part of what was scanned (or one byte), if buffered
                        let span = o + (want_abs - at);
                        let want = match asel {
                            0 => 0,
                            1 => 1,
                            2 => span,
                            _ => span / 2 + 1,
                        };
                        let have = r.request(want).len();
                        let n = want.min(have);
                        r.advance(n);
                        abs += n;
                    }
                }
            }
            if violation.is_some() {
                break;
            }
        }
        let s = src.state();
        st.steps += s.c.calls;
        st.add("fault.one_byte_read", s.c.one_byte_reads);
        st.add("fault.interrupted", s.c.interrupted);
        if s.budget_exceeded || s.c.calls_after_end > 0 && violation.is_none() && false {
            violation = None;
        }
        t.u64(s.trace.0);
        let mut k = Fnv::default();
        k.bytes(&case.data);
        k.u64(s.trace.0);
        for st4 in &case.steps {
            k.byte(st4.0 ^ (st4.1 << 2) ^ (st4.2 << 4) ^ (st4.3 << 6));
        }
        RunOut {
            violation,
            key: if refills_inside >= 1 { Some(k.0) } else { None },
            trace: t.0,
        }
    }
    fn shrink(&self, case: &HelperLoopCase) -> Vec<HelperLoopCase> {
        let mut out = vec![];
        for p in [SourceCfg::one_shot(), SourceCfg::bytewise()] {
            if p.rank() < case.src.rank() {
                let mut c = case.clone();
                c.src = p;
                out.push(c);
            }
        }
        let n = case.steps.len();
        if n > 1 {
            let mut c = case.clone();
            c.steps.truncate(n / 2);
            out.push(c);
        }
        for i in (0..n).rev() {
            let mut c = case.clone();
            c.steps.remove(i);
            out.push(c);
        }
        if case.data.len() > 1 {
            let mut c = case.clone();
            c.data.truncate(case.data.len() / 2);
            out.push(c);
        }
        out
    }
    fn encode(&self, case: &HelperLoopCase, kv: &mut Kv) {
        kv.put("case.data", hex(&case.data));
        kv.put("case.data_readable", show_bytes(&case.data));
        kv.put("case.chunk", case.chunk);
        kv.put("case.src", case.src.encode());
        kv.put(
            "case.steps",
            case.steps
                .iter()
                .map(|s| format!("{}:{}:{}:{}", s.0, s.1, s.2, s.3))
                .collect::<Vec<_>>()
                .join(","),
        );
    }
    fn decode(&self, kv: &Kv) -> Option<HelperLoopCase> {
        Some(HelperLoopCase {
            data: kv.get_bytes("case.data")?,
            chunk: kv.get_usize("case.chunk")?,
            src: SourceCfg::decode(kv.get("case.src")?)?,
            steps: kv
                .get("case.steps")?
                .split(',')
                .filter(|s| !s.is_empty())
                .map(|s| {
                    let p: Vec<u8> = s.split(':').filter_map(|x| x.parse().ok()).collect();
                    if p.len() == 4 {
                        Some((p[0], p[1], p[2], p[3]))
                    } else {
                        None
                    }
                })
                .collect::<Option<Vec<_>>>()?,
        })
    }
    fn sample(&self, case: &HelperLoopCase) -> Json {
        Json::obj(vec![
            ("input", Json::s(show_bytes(&case.data))),
            ("chunk", Json::U(case.chunk as u64)),
            ("plan", Json::s(case.src.encode())),
            ("session_steps", Json::U(case.steps.len() as u64)),
        ])
    }
}
