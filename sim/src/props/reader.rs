//! C02 / C09 (reader level) / C14 (reader part): operation histories on a real `DeferredReader`
//! over a `SimSource`, checked against a Vec+cursor reference model after every operation.

use std::io::{BufRead, BufReader, ErrorKind, Read};
use std::rc::Rc;

use flussab::DeferredReader;

use crate::crash;
use crate::framework::{Meta, Prop, RunOut, Stats, Tier, Violation};
use crate::json::{hex, show_bytes, Json, Kv};
use crate::rng::{Fnv, Rng};
use crate::source::{gen_plan, CallRes, SimSource, SourceCfg, Step, ERR_KINDS};

#[derive(Clone, Copy, PartialEq, Eq, Debug)]
pub enum Mode {
    C02,
    C09,
    C14,
}

#[derive(Clone, Debug, PartialEq, Eq)]
pub enum PreOp {
    Read(usize),
    FillConsume(usize),
}

#[derive(Clone, Debug, PartialEq, Eq)]
pub enum RCtor {
    FromRead,
    Boxed,
    BufReader {
        cap: usize,
        pre_sizes: Vec<usize>,
        pre_ops: Vec<PreOp>,
    },
}

#[derive(Clone, Copy, Debug, PartialEq, Eq)]
pub enum ROp {
    Request(usize),
    RequestByte,
    RequestByteAt(usize),
    RequestMore,
    Advance(usize),
    AdvanceAll,
    AdvanceWithBuf(usize),
    AdvanceUnchecked(usize),
    SetMark,
    SetMarkTo(usize),
    SetChunk(usize),
    CheckIoError,
    /// crash ops (C14): n = buf_len + 1 + extra, panic expected and caught
    AdvancePast(usize),
    AdvanceWithBufPast(usize),
    /// crash op (C14): a refill with a chunk size that cannot be allocated on top of the buffered
    /// data (`isize::MAX - buf_len + 1 + j % buf_len`): `capacity overflow` panic expected and
    /// caught, the chunk size is set back afterwards; a no-op with an empty window
    RefillOverflow(usize),
}

#[derive(Clone, Debug)]
pub struct ReaderCase {
    pub data: Vec<u8>,
    pub src: SourceCfg,
    pub ctor: RCtor,
    pub ops: Vec<ROp>,
}

pub struct ReaderProp {
    pub mode: Mode,
}

const CHUNKS: [usize; 16] = [1, 2, 3, 4, 7, 8, 9, 15, 16, 17, 33, 64, 300, 4096, 16384, 65536];

/// Rare: chunk sizes far beyond the shipped 16 KiB (each refill then offers the source that much).
const BIG_CHUNKS: [usize; 6] = [131_072, 262_144, 262_145, 327_680, 1 << 20, 4 << 20];

fn pick_chunk(rng: &mut Rng) -> usize {
    if !cfg!(miri) && rng.chance(1, 40) {
        *rng.pick(&BIG_CHUNKS)
    } else {
        *rng.pick(&CHUNKS)
    }
}

/// How far past the buffered data a crash operation goes. Values above `usize::MAX / 2` are
/// absolute arguments (`advance(usize::MAX - j)`: an argument computed by a subtraction that
/// underflowed by a few bytes; position + n then wraps in a build without overflow checks).
fn past_amount(rng: &mut Rng, data_len: usize) -> usize {
    if rng.chance(1, 6) {
        match rng.below(4) {
            0 => usize::MAX,
            1 => usize::MAX - rng.small(64),
            2 => usize::MAX - rng.below(data_len + 1),
            _ => (isize::MAX as usize) + 1 + rng.small(64),
        }
    } else {
        rng.small(200)
    }
}

fn past_n(len_before: usize, e: usize) -> usize {
    if e > usize::MAX / 2 {
        e
    } else {
        len_before + 1 + e
    }
}

fn gen_ops(rng: &mut Rng, data_len: usize, crash: bool) -> Vec<ROp> {
    let mut ops = vec![];
    if rng.chance(5, 6) {
        ops.push(ROp::SetChunk(pick_chunk(rng)));
    }
    // under Miri every step costs ~50 ms: shorter histories, more of them
    let nops = if cfg!(miri) {
        2 + rng.small(14)
    } else if rng.chance(1, 100) {
        // a long session
        200 + rng.below(600)
    } else {
        3 + rng.small(60)
    };
    let w_crash = if crash { 3 } else { 0 };
    for _ in 0..nops {
        let k = rng.weighted(&[14, 6, 8, 8, 12, 6, 6, 4, 8, 3, 3, 3, w_crash, w_crash, w_crash / 3]);
        ops.push(match k {
            0 => {
                if rng.chance(1, 150) {
                    // "everything there is"
                    ROp::Request(*rng.pick(&[usize::MAX, usize::MAX / 2, crate::rng::TWO_POW_40]))
                } else if rng.chance(1, 6) {
                    ROp::Request(rng.below(data_len + 12))
                } else {
                    ROp::Request(rng.small(48))
                }
            }
            1 => ROp::RequestByte,
            2 => ROp::RequestByteAt(if rng.chance(1, 150) {
                *rng.pick(&[usize::MAX, usize::MAX - 1, crate::rng::TWO_POW_40])
            } else if rng.chance(1, 8) {
                rng.below(data_len + 12)
            } else {
                rng.small(40)
            }),
            3 => ROp::RequestMore,
            4 => ROp::Advance(if data_len > 4096 && rng.chance(1, 2) {
                rng.below(data_len)
            } else {
                rng.small(64)
            }),
            5 => ROp::AdvanceAll,
            6 => ROp::AdvanceWithBuf(rng.small(64)),
            7 => ROp::AdvanceUnchecked(rng.small(64)),
            8 => ROp::SetMark,
            9 => ROp::SetMarkTo(if rng.chance(1, 10) {
                rng.next_u64() as usize
            } else {
                rng.below(data_len + 9)
            }),
            10 => ROp::SetChunk(pick_chunk(rng)),
            11 => ROp::CheckIoError,
            12 => ROp::AdvancePast(past_amount(rng, data_len)),
            13 => ROp::AdvanceWithBufPast(past_amount(rng, data_len)),
            _ => ROp::RefillOverflow(rng.small(64)),
        });
    }
    ops
}

fn gen_case(rng: &mut Rng, mode: Mode) -> ReaderCase {
    let len = match rng.below(10) {
        // rare: beyond two default chunks, so that realign/shrink also run with the shipped chunk size
        _ if !cfg!(miri) && rng.chance(1, 600) => rng.range(40_000, 120_000),
        // very rare: look-aheads of hundreds of KiB, BufReaders holding more than a chunk
        _ if !cfg!(miri) && rng.chance(1, 2500) => rng.range(200_000, 1_000_000),
        0 => rng.below(4),
        1..=5 => rng.range(4, 96),
        _ if cfg!(miri) => rng.range(4, 96),
        _ => rng.range(64, 512),
    };
    // random payload: a duplicated, dropped or reordered segment almost surely changes content
    let data = rng.bytes(len);
    let interrupts = rng.weighted(&[5, 3, 2]) as u8;
    let mut src = gen_plan(rng, len, &[], interrupts);
    // end of stream: clean EOF, truncation is the same thing here; terminal error at any offset
    if rng.chance(2, 5) {
        let k = if rng.chance(1, 4) { len } else { rng.below(len + 1) };
        let (kind, os) = crate::source::fault_error(rng.below(crate::source::FAULT_SELECTORS));
        src.fail_at = Some((k, kind));
        src.fail_os = os;
    }
    if mode == Mode::C14 {
        // hostile sources: lies and panics sprinkled into the plan
        if rng.chance(3, 5) {
            if src.steps.is_empty() {
                src.steps.push(Step::Fill);
            }
            let n = 1 + rng.below(3);
            for _ in 0..n {
                let at = rng.below(src.steps.len() + 1);
                let s = if rng.chance(2, 3) {
                    Step::Lie(1 + rng.small(64))
                } else {
                    Step::Panic
                };
                src.steps.insert(at, s);
            }
        }
    }
    let ctor = match rng.weighted(&[4, 2, 5]) {
        0 => RCtor::FromRead,
        1 => RCtor::Boxed,
        _ => {
            let cap = if len > 30_000 {
                *rng.pick(&[64usize, 20_000, 65_536, 131_072])
            } else {
                *rng.pick(&[1usize, 2, 3, 8, 64])
            };
            let npre = rng.below(4);
            let mut pre_ops = vec![];
            for _ in 0..npre {
                pre_ops.push(if rng.chance(1, 2) {
                    PreOp::Read(1 + rng.small(10))
                } else {
                    PreOp::FillConsume(rng.small(10))
                });
            }
            let pre_sizes = (0..npre + 1)
                .map(|_| if cap > 64 { 1 + rng.below(cap) } else { 1 + rng.small(70) })
                .collect();
            RCtor::BufReader {
                cap,
                pre_sizes,
                pre_ops,
            }
        }
    };
    let mut ops = gen_ops(rng, len, mode == Mode::C14);
    if mode == Mode::C14 && !cfg!(miri) && rng.chance(1, 200_000) {
        // a chunk size beyond what a single read(2) can transfer (2 GiB), a source that claims a
        // few bytes more than it was offered: the reader's assert is the only thing between the
        // claim and the buffer
        // (one refill with the huge chunk, then back to a small one: a second refill with data in
        // the buffer would make the Vec double to 4 GiB)
        let first = match rng.below(3) {
            0 => ROp::RequestMore,
            1 => ROp::Request(1 + rng.small(64)),
            _ => ROp::RequestByte,
        };
        let mut head = vec![ROp::SetChunk(*rng.pick(&[0x8000_2000usize, 0x7fff_f000 + 1])), first, ROp::SetChunk(64)];
        head.extend(ops.drain(..).take(12));
        ops = head;
        src.steps.insert(0, Step::Lie(1 + rng.small(4096)));
    }
    ReaderCase {
        data,
        src,
        ctor,
        ops,
    }
}

struct Model {
    base: usize,
    c: usize,
    mark: usize,
    taken: bool,
    strict: bool,
    chunk: usize,
    since_align: usize,
    panics_seen: u32,
}

fn viol(check: &'static str, sig: String, detail: String) -> Option<Violation> {
    Some(Violation {
        check,
        signature: sig,
        detail,
    })
}

impl ReaderProp {
    fn base_meta(&self) -> Meta {
        Meta {
            level: "exploration",
            rule: "seeded operation histories (3..63 ops) on a real DeferredReader over a SimSource with a generated read plan (short reads, Interrupted, terminal error/EOF at any offset; constructors from_read / from_boxed_dyn_read / from_buf_reader over a partly consumed std BufReader); a run is non-trivial iff the source served at least two successful reads (the schedule mattered); distinct = distinct (constructor, source-trace hash, op-history hash)",
            assumptions: vec![
                "the reference model takes the number of delivered bytes from the simulated source's own log, it never guesses what a read returned",
                "for from_buf_reader the model cannot see inside std's Chain/Cursor, so between operations it requires window_end <= bytes delivered by the source (equality once the source ended) instead of equality",
            ],
            real: vec!["flussab::DeferredReader", "std::io::BufReader", "std::io::Chain", "std::io::Cursor"],
            stub: vec!["byte source (SimSource)"],
        }
    }

    fn check_name(&self, what: &str) -> &'static str {
        match (self.mode, what) {
            (Mode::C02, "window") => "C02.window",
            (Mode::C02, "position") => "C02.position",
            (Mode::C02, "mark") => "C02.mark",
            (Mode::C02, "flags") => "C02.flags",
            (Mode::C02, "short") => "C02.short_request",
            (Mode::C02, "result") => "C02.result",
            (Mode::C02, "panic") => "C02.panic",
            (Mode::C14, "window") => "C14.window",
            (Mode::C14, "result") => "C14.window",
            (Mode::C14, "short") => "C14.window",
            (Mode::C14, "panic") => "C14.unexpected_panic",
            (Mode::C14, "state") => "C14.model_after_panic",
            (Mode::C09, "extra") => "C09.extra_read",
            (Mode::C09, "after_end") => "C09.read_after_end",
            (Mode::C09, "multi") => "C09.refill_reads",
            _ => "",
        }
    }

    /// Checks all state invariants; returns a violation (already mapped to the mode) or None.
    fn invariants(
        &self,
        r: &DeferredReader,
        m: &Model,
        src: &SimSource,
        data: &[u8],
        opi: usize,
        op: &str,
    ) -> Option<Violation> {
        let s = src.state();
        let d_rel = s.pos - m.base;
        let len = r.buf_len();
        let ctx = |what: &str| format!("after op #{opi} {op}: {what}");
        // length first: never touch buf() with a broken length
        let len_ok = if m.strict {
            m.c.checked_add(len) == Some(d_rel)
        } else {
            m.c.checked_add(len).map_or(false, |w| w <= d_rel)
                && (!(s.ended || s.failed) || m.c + len == d_rel)
        };
        if !len_ok {
            let name = self.check_name("window");
            if name.is_empty() {
                return viol("abort", String::new(), String::new());
            }
            return viol(
                name,
                "reader buf_len inconsistent with the bytes delivered by the source".into(),
                ctx(&format!(
                    "buf_len()={len} but consumed={} and source delivered {d_rel} (strict={})",
                    m.c, m.strict
                )),
            );
        }
        let want = &data[m.base + m.c..m.base + m.c + len];
        let got = r.buf();
        if got != want || got.len() != len || r.buf_ptr() != got.as_ptr() {
            let name = self.check_name("window");
            if name.is_empty() {
                return viol("abort", String::new(), String::new());
            }
            return viol(
                name,
                "reader window content differs from the source stream".into(),
                ctx(&format!(
                    "buf()={:?} expected {:?}",
                    show_bytes(got),
                    show_bytes(want)
                )),
            );
        }
        if self.mode == Mode::C09 {
            if s.c.calls_after_end > 0 {
                return viol(
                    "C09.read_after_end",
                    "source called again after it reported end of input or an error".into(),
                    ctx(&format!("{} such calls", s.c.calls_after_end)),
                );
            }
            return None;
        }
        // C14 after a panic: everything must still hold ("state"); before: only window (above)
        let full = self.mode == Mode::C02 || (self.mode == Mode::C14 && m.panics_seen > 0);
        if !full {
            return None;
        }
        let map = |w: &'static str| -> &'static str {
            if self.mode == Mode::C14 {
                "C14.model_after_panic"
            } else {
                self.check_name(w)
            }
        };
        if r.position() != m.c {
            return viol(
                map("position"),
                "position() differs from the number of bytes advanced over".into(),
                ctx(&format!("position()={} expected {}", r.position(), m.c)),
            );
        }
        if r.mark() != m.mark {
            return viol(
                map("mark"),
                "mark() no longer designates the marked absolute offset".into(),
                ctx(&format!("mark()={} expected {}", r.mark(), m.mark)),
            );
        }
        let complete = s.ended || s.failed;
        if r.is_complete() != complete || r.is_at_end() != (complete && len == 0) {
            return viol(
                map("flags"),
                "is_complete()/is_at_end() wrong".into(),
                ctx(&format!(
                    "is_complete()={} is_at_end()={} but source ended={} failed={} buffered={}",
                    r.is_complete(),
                    r.is_at_end(),
                    s.ended,
                    s.failed,
                    len
                )),
            );
        }
        let want_err = s.failed && !m.taken;
        let err_ok = match r.io_error() {
            Some(e) => {
                want_err
                    && Some(e.kind()) == s.cfg.fail_at.map(|f| f.1)
                    && e.to_string() == s.fail_msg()
                    // the parked error is the source's error object, not a copy of its text
                    && match s.cfg.fail_os {
                        Some(c) if c >= 0 => true,
                        Some(c) => crate::source::lib_payload_of(e) == Some(c),
                        None => crate::source::payload_of(e) == s.cfg.fail_at.map(|f| f.0),
                    }
            }
            None => !want_err,
        };
        if !err_ok {
            return viol(
                map("flags"),
                "io_error() does not reflect the source failure".into(),
                ctx(&format!(
                    "io_error()={:?} but source failed={} taken={}",
                    r.io_error().map(|e| e.to_string()),
                    s.failed,
                    m.taken
                )),
            );
        }
        None
    }
}

fn op_name(op: &ROp) -> String {
    match op {
        ROp::Request(n) => format!("request({n})"),
        ROp::RequestByte => "request_byte()".into(),
        ROp::RequestByteAt(k) => format!("request_byte_at_offset({k})"),
        ROp::RequestMore => "request_more()".into(),
        ROp::Advance(n) => format!("advance(min({n},len))"),
        ROp::AdvanceAll => "advance(len)".into(),
        ROp::AdvanceWithBuf(n) => format!("advance_with_buf(min({n},len))"),
        ROp::AdvanceUnchecked(n) => format!("advance_unchecked(min({n},len))"),
        ROp::SetMark => "set_mark()".into(),
        ROp::SetMarkTo(p) => format!("set_mark_to_position({p})"),
        ROp::SetChunk(c) => format!("set_chunk_size({c})"),
        ROp::CheckIoError => "check_io_error()".into(),
        ROp::AdvancePast(e) if *e > usize::MAX / 2 => format!("advance({e:#x})"),
        ROp::AdvanceWithBufPast(e) if *e > usize::MAX / 2 => format!("advance_with_buf({e:#x})"),
        ROp::AdvancePast(e) => format!("advance(len+1+{e})"),
        ROp::AdvanceWithBufPast(e) => format!("advance_with_buf(len+1+{e})"),
        ROp::RefillOverflow(j) => format!("set_chunk_size(isize::MAX-len+1+{j}%len); request_more()"),
    }
}

fn op_enc(op: &ROp) -> String {
    match op {
        ROp::Request(n) => format!("rq{n}"),
        ROp::RequestByte => "rb".into(),
        ROp::RequestByteAt(k) => format!("ra{k}"),
        ROp::RequestMore => "rm".into(),
        ROp::Advance(n) => format!("ad{n}"),
        ROp::AdvanceAll => "aa".into(),
        ROp::AdvanceWithBuf(n) => format!("aw{n}"),
        ROp::AdvanceUnchecked(n) => format!("au{n}"),
        ROp::SetMark => "sm".into(),
        ROp::SetMarkTo(p) => format!("st{p}"),
        ROp::SetChunk(c) => format!("sc{c}"),
        ROp::CheckIoError => "ce".into(),
        ROp::AdvancePast(e) => format!("xa{e}"),
        ROp::AdvanceWithBufPast(e) => format!("xw{e}"),
        ROp::RefillOverflow(j) => format!("xo{j}"),
    }
}

fn op_dec(s: &str) -> Option<ROp> {
    if s.len() < 2 {
        return None;
    }
    let (h, t) = s.split_at(2);
    let n = || t.parse::<usize>().ok();
    Some(match h {
        "rq" => ROp::Request(n()?),
        "rb" => ROp::RequestByte,
        "ra" => ROp::RequestByteAt(n()?),
        "rm" => ROp::RequestMore,
        "ad" => ROp::Advance(n()?),
        "aa" => ROp::AdvanceAll,
        "aw" => ROp::AdvanceWithBuf(n()?),
        "au" => ROp::AdvanceUnchecked(n()?),
        "sm" => ROp::SetMark,
        "st" => ROp::SetMarkTo(n()?),
        "sc" => ROp::SetChunk(n()?),
        "ce" => ROp::CheckIoError,
        "xa" => ROp::AdvancePast(n()?),
        "xw" => ROp::AdvanceWithBufPast(n()?),
        "xo" => ROp::RefillOverflow(n()?),
        _ => return None,
    })
}

impl Prop for ReaderProp {
    type Case = ReaderCase;

    fn id(&self) -> &'static str {
        match self.mode {
            Mode::C02 => "C02",
            Mode::C09 => "C09r",
            Mode::C14 => "C14r",
        }
    }

    fn meta(&self) -> Meta {
        let mut m = self.base_meta();
        match self.mode {
            Mode::C02 => {}
            Mode::C09 => {
                m.rule = "same histories as C02, but the verdict is read off the source's call log: request_more() performs exactly one non-Interrupted read (at most one through from_buf_reader's Cursor), a request that buffered data already satisfies issues no read, every read during request(n)/request_byte_at_offset(k) was issued while fewer than n (k+1) bytes were buffered, operations that need no input never call the source, and the source is never called again after Ok(0) or an error; non-trivial/distinct as for C02";
            }
            Mode::C14 => {
                m.rule = "C02 histories extended with crash operations: advance(n)/advance_with_buf(n) with n > buf_len() (documented panic, caught with catch_unwind, reader used again), sources that claim more bytes than they were offered (trips the load-bearing assert) or panic inside read(); after every caught panic the reference model must be unchanged and all C02 invariants must hold (buf_len is compared before buf() is touched); at all times the exposed window must be the stream's bytes; red zones behind the harness allocator's blocks must be intact at the end of the history; non-trivial/distinct as for C02";
            }
        }
        m
    }
    fn runs(&self, tier: Tier) -> u64 {
        let dbg = cfg!(debug_assertions);
        match (self.mode, tier, dbg) {
            (Mode::C02, Tier::Quick, true) => 1_200_000,
            (Mode::C02, Tier::Quick, false) => 600_000,
            (Mode::C02, Tier::Thorough, true) => 50_000_000,
            (Mode::C02, Tier::Thorough, false) => 30_000_000,
            (Mode::C09, Tier::Quick, true) => 1_000_000,
            (Mode::C09, Tier::Thorough, true) => 30_000_000,
            (Mode::C09, _, false) => 0,
            (Mode::C14, Tier::Quick, true) => 1_000_000,
            (Mode::C14, Tier::Thorough, true) => 30_000_000,
            (Mode::C14, Tier::Quick, false) => 500_000,
            (Mode::C14, Tier::Thorough, false) => 10_000_000,
        }
    }

    fn gen(&self, rng: &mut Rng, _tier: Tier) -> ReaderCase {
        gen_case(rng, self.mode)
    }

    fn exec(&self, case: &ReaderCase, st: &mut Stats) -> RunOut {
        let data = Rc::new(case.data.clone());
        let src = SimSource::new(data.clone(), case.src.clone());
        let mut trace = Fnv::default();
        let mut base = 0usize;
        let strict;
        // --- construction -------------------------------------------------------------------
        let built = crash::catch(|| match &case.ctor {
            RCtor::FromRead => (DeferredReader::from_read(src.clone()), 0usize, true),
            RCtor::Boxed => (
                DeferredReader::from_boxed_dyn_read(Box::new(src.clone())),
                0,
                true,
            ),
            RCtor::BufReader {
                cap,
                pre_sizes,
                pre_ops,
            } => {
                {
                    let mut s = src.0.borrow_mut();
                    s.armed = false;
                    s.pre_sizes = pre_sizes.clone();
                }
                let mut br = BufReader::with_capacity((*cap).max(1), src.clone());
                let mut c0 = 0usize;
                for op in pre_ops {
                    match op {
                        PreOp::Read(n) => {
                            let mut tmp = vec![0u8; *n];
                            let k = br.read(&mut tmp).unwrap_or(0);
                            assert_eq!(&tmp[..k], &data[c0..c0 + k], "harness: BufReader pre-read");
                            c0 += k;
                        }
                        PreOp::FillConsume(n) => {
                            let avail = br.fill_buf().map(|b| b.len()).unwrap_or(0);
                            let k = (*n).min(avail);
                            br.consume(k);
                            c0 += k;
                        }
                    }
                }
                src.0.borrow_mut().armed = true;
                (DeferredReader::from_buf_reader(br), c0, false)
            }
        });
        let mut r = match built {
            Ok((r, c0, s)) => {
                base = c0;
                strict = s;
                r
            }
            Err(p) => {
                return RunOut {
                    violation: viol(
                        match self.mode {
                            Mode::C02 => "C02.panic",
                            Mode::C14 => "C14.unexpected_panic",
                            Mode::C09 => "abort",
                        },
                        "panic while constructing the reader".into(),
                        p.short(),
                    )
                    .filter(|v| v.check != "abort"),
                    key: None,
                    trace: 0,
                }
            }
        };
        let _ = base;
        let mut m = Model {
            base,
            c: 0,
            mark: 0,
            taken: false,
            strict,
            chunk: 16 << 10,
            since_align: 0,
            panics_seen: 0,
        };
        st.hit(match &case.ctor {
            RCtor::FromRead => "ctor.from_read",
            RCtor::Boxed => "ctor.from_boxed_dyn_read",
            RCtor::BufReader { .. } => "ctor.from_buf_reader",
        });
        if base > 0 {
            st.hit("fault.prefilled_bufreader_partly_consumed");
        }

        let mut violation: Option<Violation> = None;
        let shrink0 = crate::alloc::shrink_events();
        let overruns0 = crate::alloc::overruns();

        if let Some(v) = self.invariants(&r, &m, &src, &data, 0, "<construction>") {
            violation = Some(v);
        }

        let mut opi = 0;
        while violation.is_none() && opi < case.ops.len() {
            let op = case.ops[opi];
            opi += 1;
            st.steps += 1;
            let log_before = src.state().log.len();
            let len_before = r.buf_len();
            let complete_before = {
                let s = src.state();
                s.ended || s.failed
            };
            let name = op_name(&op);
            let ctx = |what: String| format!("op #{opi} {name}: {what}");
            // `need`: how many bytes from the cursor the op asks for (C09 accounting)
            let mut need: Option<usize> = None;
            let mut expect_panic = false;
            let mut res_violation: Option<Violation> = None;

            let data_ref = &data;
            let outcome = crash::catch(|| -> Option<(&'static str, String, String)> {
                match op {
                    ROp::Request(n) => {
                        let got = r.request(n).to_vec();
                        Some(("request", format!("{}", got.len()), hex(&got)))
                    }
                    ROp::RequestByte => {
                        let b = r.request_byte();
                        Some(("byte", format!("{b:?}"), String::new()))
                    }
                    ROp::RequestByteAt(k) => {
                        let b = r.request_byte_at_offset(k);
                        Some(("byte", format!("{b:?}"), String::new()))
                    }
                    ROp::RequestMore => {
                        let b = r.request_more();
                        Some(("more", format!("{b}"), String::new()))
                    }
                    ROp::Advance(n) => {
                        r.advance(n.min(len_before));
                        None
                    }
                    ROp::AdvanceAll => {
                        r.advance(len_before);
                        None
                    }
                    ROp::AdvanceWithBuf(n) => {
                        let got = r.advance_with_buf(n.min(len_before)).to_vec();
                        Some(("awb", String::new(), hex(&got)))
                    }
                    ROp::AdvanceUnchecked(n) => {
                        // SAFETY: n <= buf_len(), which was validated against the model
                        unsafe { r.advance_unchecked(n.min(len_before)) };
                        None
                    }
                    ROp::SetMark => {
                        r.set_mark();
                        None
                    }
                    ROp::SetMarkTo(p) => {
                        r.set_mark_to_position(p);
                        None
                    }
                    ROp::SetChunk(c) => {
                        r.set_chunk_size(c.max(1));
                        None
                    }
                    ROp::CheckIoError => {
                        let e = r.check_io_error();
                        Some((
                            "check",
                            match &e {
                                Ok(()) => "ok".to_string(),
                                Err(e) => format!("{:?}|{}", e.kind(), e),
                            },
                            String::new(),
                        ))
                    }
                    ROp::AdvancePast(e) => {
                        r.advance(past_n(len_before, e));
                        None
                    }
                    ROp::AdvanceWithBufPast(e) => {
                        let _ = r.advance_with_buf(past_n(len_before, e)).len();
                        None
                    }
                    ROp::RefillOverflow(j) => {
                        if len_before == 0 {
                            None
                        } else {
                            r.set_chunk_size((isize::MAX as usize) - len_before + 1 + j % len_before);
                            let b = r.request_more();
                            Some(("more", format!("{b}"), String::new()))
                        }
                    }
                }
            });
            if let ROp::RefillOverflow(_) = op {
                // (also after the caught panic) back to the chunk size the model knows
                r.set_chunk_size(m.chunk);
            }
            let _ = data_ref;

            // what happened at the source during this op
            let (calls, lied_or_panicked, d_rel, ended_failed, failed, fail_kind, fail_msg) = {
                let s = src.state();
                let calls: Vec<(usize, CallRes, usize)> = s.log[log_before..].to_vec();
                let hostile = calls
                    .iter()
                    .any(|c| matches!(c.1, CallRes::Lie | CallRes::Panic));
                (
                    calls,
                    hostile,
                    s.pos - m.base,
                    s.ended || s.failed,
                    s.failed,
                    s.cfg.fail_at.map(|f| f.1),
                    s.fail_msg(),
                )
            };
            st.steps += calls.len() as u64;
            if matches!(op, ROp::AdvancePast(_) | ROp::AdvanceWithBufPast(_)) {
                expect_panic = true;
            }
            if matches!(op, ROp::RefillOverflow(_)) && len_before > 0 {
                // (a reader that is already complete returns false instead; the source having ended
                // does not imply that: a BufReader in between may have swallowed the end)
                expect_panic = true;
                if !complete_before {
                    st.hit("fault.refill_with_unallocatable_chunk");
                }
            }

            match outcome {
                Err(p) => {
                    m.panics_seen += 1;
                    trace.str("panic");
                    if expect_panic {
                        st.hit("fault.caught_advance_panic");
                    } else if lied_or_panicked {
                        st.hit("fault.caught_source_lie_or_panic");
                    } else {
                        let nm = self.check_name("panic");
                        if !nm.is_empty() {
                            res_violation = viol(
                                nm,
                                format!("unexpected panic in DeferredReader::{}", name.split('(').next().unwrap_or("")),
                                ctx(p.short()),
                            );
                        } else {
                            res_violation = viol("abort", String::new(), String::new());
                        }
                    }
                    // model unchanged
                }
                Ok(ret) => {
                    if let Some((k, a, b)) = &ret {
                        trace.str(k);
                        trace.str(a);
                        trace.str(b);
                    }
                    // update model + check return values
                    let window_now = if m.strict { d_rel - m.c } else { r.buf_len() };
                    let window = |from: usize, n: usize| -> &[u8] {
                        // (clamped: code under test that is broken may claim more than exists)
                        let lo = (m.base + from).min(data.len());
                        &data[lo..lo.saturating_add(n).min(data.len())]
                    };
                    match op {
                        ROp::Request(n) => {
                            need = Some(n);
                            let (_, l, h) = ret.unwrap();
                            let got_len: usize = l.parse().unwrap();
                            if got_len <= data.len() && m.base + m.c + got_len <= data.len() {
                                if h != hex(window(m.c, got_len)) {
                                    res_violation = viol(
                                        self.check_name("result"),
                                        "request(n) returned bytes that are not the next bytes of the stream".into(),
                                        ctx(format!("returned {} bytes", got_len)),
                                    );
                                }
                            }
                            if res_violation.is_none() && got_len < n && !ended_failed {
                                res_violation = viol(
                                    self.check_name("short"),
                                    "request(n) fell short although the source neither ended nor failed".into(),
                                    ctx(format!("returned {got_len} < {n}")),
                                );
                            }
                            if res_violation.is_none() && got_len != r.buf_len() {
                                res_violation = viol(
                                    self.check_name("result"),
                                    "request(n) did not return all of the buffered data".into(),
                                    ctx(format!("returned {got_len}, buf_len()={}", r.buf_len())),
                                );
                            }
                        }
                        ROp::RequestByte | ROp::RequestByteAt(_) => {
                            let k = if let ROp::RequestByteAt(k) = op { k } else { 0 };
                            need = Some(k.saturating_add(1));
                            let (_, l, _) = ret.unwrap();
                            let expect = if k < window_now {
                                data.get(m.base + m.c + k).copied()
                            } else {
                                None
                            };
                            if l != format!("{expect:?}") {
                                res_violation = viol(
                                    self.check_name("result"),
                                    "request_byte_at_offset returned a wrong byte".into(),
                                    ctx(format!("returned {l}, expected {expect:?}")),
                                );
                            } else if expect.is_none() && !ended_failed {
                                res_violation = viol(
                                    self.check_name("short"),
                                    "request_byte_at_offset gave up although the source neither ended nor failed".into(),
                                    ctx(String::new()),
                                );
                            }
                        }
                        ROp::RequestMore => {
                            let (_, l, _) = ret.unwrap();
                            let expect = !complete_before;
                            if l != format!("{expect}") {
                                res_violation = viol(
                                    self.check_name("result"),
                                    "request_more() return value wrong".into(),
                                    ctx(format!("returned {l}, expected {expect}")),
                                );
                            }
                            if !complete_before {
                                if m.since_align > 2 * m.chunk {
                                    st.hit("reach.realign_precondition");
                                    m.since_align = 0;
                                }
                            }
                        }
                        ROp::Advance(n) | ROp::AdvanceUnchecked(n) => {
                            let k = n.min(len_before);
                            m.c += k;
                            m.since_align += k;
                        }
                        ROp::AdvanceAll => {
                            m.c += len_before;
                            m.since_align += len_before;
                        }
                        ROp::AdvanceWithBuf(n) => {
                            let k = n.min(len_before);
                            let (_, _, h) = ret.unwrap();
                            if h != hex(window(m.c, k)) {
                                res_violation = viol(
                                    self.check_name("result"),
                                    "advance_with_buf returned bytes other than those advanced over".into(),
                                    ctx(String::new()),
                                );
                            }
                            m.c += k;
                            m.since_align += k;
                        }
                        ROp::SetMark => m.mark = m.c,
                        ROp::SetMarkTo(p) => m.mark = p,
                        ROp::SetChunk(c) => m.chunk = c.max(1),
                        ROp::CheckIoError => {
                            let (_, l, _) = ret.unwrap();
                            let expect = if failed && !m.taken {
                                format!("{:?}|{}", fail_kind.unwrap_or(ErrorKind::Other), fail_msg)
                            } else {
                                "ok".to_string()
                            };
                            if failed {
                                m.taken = true;
                            }
                            if l != expect && self.mode != Mode::C09 {
                                res_violation = viol(
                                    if self.mode == Mode::C14 {
                                        "C14.model_after_panic"
                                    } else {
                                        "C02.flags"
                                    },
                                    "check_io_error() does not report the source failure exactly once".into(),
                                    ctx(format!("returned {l}, expected {expect}")),
                                )
                                .filter(|_| self.mode == Mode::C02 || m.panics_seen > 0);
                            }
                        }
                        ROp::AdvancePast(_) | ROp::AdvanceWithBufPast(_) => {
                            // did not panic: the state must at least be unchanged (checked below)
                            st.hit("note.advance_past_did_not_panic");
                        }
                        ROp::RefillOverflow(_) => {
                            // no panic (nothing left to read, empty window, or code that bounds the
                            // chunk size): an ordinary refill as far as the model is concerned
                            if let Some((_, l, _)) = &ret {
                                let expect = !complete_before;
                                if *l != format!("{expect}") {
                                    res_violation = viol(
                                        self.check_name("result"),
                                        "request_more() return value wrong".into(),
                                        ctx(format!("returned {l}, expected {expect}")),
                                    );
                                }
                                if !complete_before {
                                    st.hit("note.unallocatable_refill_did_not_panic");
                                }
                            }
                        }
                    }
                }
            }

            // C09 reader-level accounting on the source log
            if self.mode == Mode::C09 && res_violation.is_none() {
                let real: Vec<&(usize, CallRes, usize)> = calls
                    .iter()
                    .filter(|c| !matches!(c.1, CallRes::Interrupted))
                    .collect();
                match op {
                    ROp::RequestMore => {
                        let expect = if complete_before { 0 } else { 1 };
                        // from_buf_reader: the first refills are served by std's Cursor over the
                        // BufReader's leftover bytes and never reach the source
                        let count_ok = if m.strict {
                            real.len() == expect
                        } else {
                            real.len() <= expect
                        };
                        if !count_ok || (complete_before && !calls.is_empty()) {
                            res_violation = viol(
                                "C09.refill_reads",
                                "request_more() must perform exactly one non-Interrupted read (none once complete)".into(),
                                ctx(format!("{} reads, {} expected; calls={:?}", real.len(), expect, calls)),
                            );
                        }
                    }
                    ROp::Request(_) | ROp::RequestByte | ROp::RequestByteAt(_) => {
                        let need = need.unwrap_or(0);
                        for c in &calls {
                            // window length at the time of the call
                            let w = (c.2 - m.base).saturating_sub(m.c);
                            if w >= need {
                                res_violation = viol(
                                    "C09.extra_read",
                                    "a read() was issued although the buffered data already satisfied the request".into(),
                                    ctx(format!("need {need} bytes, {w} were buffered when read() #{} was issued; calls={:?}", log_before, calls)),
                                );
                                break;
                            }
                        }
                    }
                    _ => {
                        if !calls.is_empty() {
                            res_violation = viol(
                                "C09.extra_read",
                                "an operation that needs no input called the source".into(),
                                ctx(format!("calls={:?}", calls)),
                            );
                        }
                    }
                }
            }

            if let Some(v) = res_violation {
                if v.check != "abort" && !v.check.is_empty() {
                    violation = Some(v);
                } else {
                    st.hit("note.run_aborted_on_foreign_violation");
                }
                break;
            }
            match self.invariants(&r, &m, &src, &data, opi, &name) {
                Some(v) if v.check == "abort" => {
                    st.hit("note.run_aborted_on_foreign_violation");
                    break;
                }
                Some(v) => violation = Some(v),
                None => {}
            }
        }

        // bookkeeping
        let s = src.state();
        st.steps += 1;
        st.add("fault.short_read", s.c.short_reads);
        st.add("fault.one_byte_read", s.c.one_byte_reads);
        st.add("fault.interrupted", s.c.interrupted);
        st.add("fault.terminal_error", s.c.errors);
        st.add("fault.eof_reached", s.c.eofs);
        st.add("fault.lying_source", s.c.lies);
        st.add("fault.panicking_source", s.c.panics);
        st.add("source.calls", s.c.calls);
        st.add("reach.buffer_shrunk_realloc", crate::alloc::shrink_events() - shrink0);
        if s.budget_exceeded {
            st.hit("note.source_call_budget_exceeded_no_verdict");
            violation = None;
        }
        trace.u64(s.trace.0);
        let key = if s.c.ok_calls >= 2 {
            let mut k = Fnv::default();
            k.u64(s.trace.0);
            for op in &case.ops {
                k.str(&op_enc(op));
            }
            k.byte(match case.ctor {
                RCtor::FromRead => 0,
                RCtor::Boxed => 1,
                RCtor::BufReader { .. } => 2,
            });
            Some(k.0)
        } else {
            None
        };
        drop(s);
        drop(r);
        if self.mode == Mode::C14 && violation.is_none() && crate::alloc::overruns() > overruns0 {
            violation = viol(
                "C14.heap_overrun",
                "DeferredReader wrote past the end of a heap block (red zone damaged)".into(),
                format!("{} damaged block(s)", crate::alloc::overruns() - overruns0),
            );
        }
        RunOut {
            violation,
            key,
            trace: trace.0,
        }
    }

    fn shrink(&self, case: &ReaderCase) -> Vec<ReaderCase> {
        let mut out = vec![];
        // simpler constructor
        if case.ctor != RCtor::FromRead {
            let mut c = case.clone();
            c.ctor = RCtor::FromRead;
            out.push(c);
        }
        // canonical plans
        for plan in [SourceCfg::one_shot(), SourceCfg::bytewise()] {
            let mut p = plan;
            p.fail_at = case.src.fail_at;
            p.fail_os = case.src.fail_os;
            if p.rank() < case.src.rank() {
                let mut c = case.clone();
                c.src = p;
                out.push(c);
            }
        }
        if case.src.fail_at.is_some() {
            let mut c = case.clone();
            c.src.fail_at = None;
            c.src.fail_os = None;
            out.push(c);
        }
        // drop Interrupted / hostile steps
        if case.src.steps.iter().any(|s| matches!(s, Step::Interrupted | Step::Storm(_))) {
            let mut c = case.clone();
            c.src.steps.retain(|s| !matches!(s, Step::Interrupted | Step::Storm(_)));
            out.push(c);
        }
        for i in 0..case.src.steps.len().min(64) {
            let mut c = case.clone();
            c.src.steps.remove(i);
            out.push(c);
        }
        // drop ops: halves, then single ops
        let n = case.ops.len();
        if n > 1 {
            let mut c = case.clone();
            c.ops.truncate(n / 2);
            out.push(c);
            let mut c = case.clone();
            c.ops.drain(..n / 2);
            out.push(c);
        }
        for i in (0..n).rev() {
            let mut c = case.clone();
            c.ops.remove(i);
            out.push(c);
        }
        // shrink arguments
        for i in 0..n {
            let smaller = |v: usize| -> Vec<usize> {
                let mut xs = vec![];
                if v > 0 {
                    xs.push(v / 2);
                    xs.push(v - 1);
                }
                xs
            };
            let alts: Vec<ROp> = match case.ops[i] {
                ROp::Request(v) => smaller(v).into_iter().map(ROp::Request).collect(),
                ROp::RequestByteAt(v) => smaller(v).into_iter().map(ROp::RequestByteAt).collect(),
                ROp::Advance(v) => smaller(v).into_iter().map(ROp::Advance).collect(),
                ROp::AdvanceWithBuf(v) => smaller(v).into_iter().map(ROp::Advance).collect(),
                ROp::AdvanceUnchecked(v) => smaller(v).into_iter().map(ROp::Advance).collect(),
                ROp::AdvanceAll => vec![],
                ROp::SetChunk(v) => smaller(v)
                    .into_iter()
                    .filter(|&x| x >= 1)
                    .map(ROp::SetChunk)
                    .collect(),
                ROp::AdvancePast(v) => smaller(v).into_iter().map(ROp::AdvancePast).collect(),
                ROp::AdvanceWithBufPast(v) => {
                    smaller(v).into_iter().map(ROp::AdvancePast).collect()
                }
                _ => vec![],
            };
            for a in alts {
                let mut c = case.clone();
                c.ops[i] = a;
                out.push(c);
            }
        }
        // truncate data
        if case.data.len() > 1 {
            for keep in [case.data.len() / 2, case.data.len() - 1] {
                let mut c = case.clone();
                c.data.truncate(keep);
                if let Some((k, kind)) = c.src.fail_at {
                    c.src.fail_at = Some((k.min(keep), kind));
                }
                out.push(c);
            }
        }
        out.retain(|c| c.src.live());
        out
    }

    fn encode(&self, case: &ReaderCase, kv: &mut Kv) {
        kv.put("case.mode", format!("{:?}", self.mode));
        kv.put("case.data", hex(&case.data));
        kv.put("case.src", case.src.encode());
        match &case.ctor {
            RCtor::FromRead => kv.put("case.ctor", "from_read"),
            RCtor::Boxed => kv.put("case.ctor", "boxed"),
            RCtor::BufReader {
                cap,
                pre_sizes,
                pre_ops,
            } => {
                kv.put("case.ctor", "buf_reader");
                kv.put("case.ctor.cap", cap);
                kv.put(
                    "case.ctor.pre_sizes",
                    pre_sizes
                        .iter()
                        .map(|x| x.to_string())
                        .collect::<Vec<_>>()
                        .join(","),
                );
                kv.put(
                    "case.ctor.pre_ops",
                    pre_ops
                        .iter()
                        .map(|o| match o {
                            PreOp::Read(n) => format!("r{n}"),
                            PreOp::FillConsume(n) => format!("c{n}"),
                        })
                        .collect::<Vec<_>>()
                        .join(","),
                );
            }
        }
        kv.put(
            "case.ops",
            case.ops.iter().map(op_enc).collect::<Vec<_>>().join(","),
        );
        kv.put(
            "case.ops_readable",
            case.ops.iter().map(op_name).collect::<Vec<_>>().join("; "),
        );
    }

    fn decode(&self, kv: &Kv) -> Option<ReaderCase> {
        let data = kv.get_bytes("case.data")?;
        let src = SourceCfg::decode(kv.get("case.src")?)?;
        let ctor = match kv.get("case.ctor")? {
            "from_read" => RCtor::FromRead,
            "boxed" => RCtor::Boxed,
            "buf_reader" => {
                let list = |k: &str| -> Vec<String> {
                    kv.get(k)
                        .unwrap_or("")
                        .split(',')
                        .filter(|s| !s.is_empty())
                        .map(|s| s.to_string())
                        .collect()
                };
                RCtor::BufReader {
                    cap: kv.get_usize("case.ctor.cap")?,
                    pre_sizes: list("case.ctor.pre_sizes")
                        .iter()
                        .map(|s| s.parse().ok())
                        .collect::<Option<Vec<usize>>>()?,
                    pre_ops: list("case.ctor.pre_ops")
                        .iter()
                        .map(|s| {
                            let (h, t) = s.split_at(1);
                            let n = t.parse().ok()?;
                            Some(if h == "r" {
                                PreOp::Read(n)
                            } else {
                                PreOp::FillConsume(n)
                            })
                        })
                        .collect::<Option<Vec<_>>>()?,
                }
            }
            _ => return None,
        };
        let ops_s = kv.get("case.ops")?;
        let ops = if ops_s.is_empty() {
            vec![]
        } else {
            ops_s.split(',').map(op_dec).collect::<Option<Vec<_>>>()?
        };
        Some(ReaderCase {
            data,
            src,
            ctor,
            ops,
        })
    }

    fn sample(&self, case: &ReaderCase) -> Json {
        Json::obj(vec![
            ("data_len", Json::U(case.data.len() as u64)),
            ("source_plan", Json::s(case.src.encode())),
            (
                "ctor",
                Json::s(match &case.ctor {
                    RCtor::FromRead => "from_read".to_string(),
                    RCtor::Boxed => "from_boxed_dyn_read".to_string(),
                    RCtor::BufReader { cap, pre_ops, .. } => {
                        format!("from_buf_reader(cap={cap}, pre_ops={pre_ops:?})")
                    }
                }),
            ),
            (
                "ops",
                Json::s(case.ops.iter().map(op_name).collect::<Vec<_>>().join("; ")),
            ),
        ])
    }
}
