pub mod locate;
pub mod parsers;
pub mod peer;
pub mod reader;
pub mod scan;
pub mod stream;
pub mod writer;
