pub mod reader;
pub mod writer;
