pub mod parsers;
pub mod reader;
pub mod scan;
pub mod writer;
