pub mod parsers;
pub mod reader;
pub mod writer;
