pub mod locate;
pub mod parsers;
pub mod peer;
pub mod reader;
pub mod scan;
pub mod stale;
pub mod stream;
pub mod writer;
