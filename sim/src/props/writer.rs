//! C11 / C14 (writer part): operation histories on a real `DeferredWriter` over a `SimSink`,
//! checked against a byte-stream reference model and the sink's call log.

use std::io::{self, ErrorKind, Write};

use flussab::DeferredWriter;

use crate::crash;
use crate::framework::{Meta, Prop, RunOut, Stats, Tier, Violation};
use crate::json::{show_bytes, Json, Kv};
use crate::rng::{Fnv, Rng};
use crate::sink::{gen_sink, SimSink, SinkCfg, SinkState, WRes, WStep};

#[derive(Clone, Copy, Debug, PartialEq, Eq)]
pub enum WOp {
    Write(usize, u32),
    WriteAll(usize, u32),
    WriteDefer(usize, u32),
    /// integer type index 0..12, raw bits
    Digits(u8, u128),
    /// buf_write_ptr(len); if non-null fill `adv <= len` bytes and advance_unchecked(adv)
    BufPtr(usize, usize, u32),
    /// real format writer: kind, seed
    Fmt(u8, u32),
    Flush,
    FlushDefer,
    Check,
    Drop,
    /// The writer goes out of scope while the thread unwinds from an unrelated panic (never
    /// generated for sinks that may panic themselves: that would be a double panic).
    DropUnwinding,
}

#[derive(Clone, Debug)]
pub struct WriterCase {
    /// None: shipped constructor (16 KiB); Some(c): verif_with_capacity(c)
    pub cap: Option<usize>,
    pub boxed: bool,
    /// 0 accept all, 1 benign, 2 failing, 3 hostile (C14 only)
    pub class: u8,
    pub sink: SinkCfg,
    pub ops: Vec<WOp>,
}

/// Payload of the unrelated panic of `WOp::DropUnwinding`.
struct UnrelatedPanic;

pub struct WriterProp {
    pub c14: bool,
}

pub const INT_TYPES: [&str; 12] = [
    "i8", "u8", "i16", "u16", "i32", "u32", "i64", "u64", "i128", "u128", "isize", "usize",
];

pub fn payload(len: usize, seed: u32) -> Vec<u8> {
    let mut x = (seed as u64) << 17 | 0x9e37_79b9;
    let mut out = Vec::with_capacity(len);
    for _ in 0..len {
        x ^= x << 13;
        x ^= x >> 7;
        x ^= x << 17;
        out.push((x >> 24) as u8);
    }
    out
}

/// Writes the integer with the real writer and returns the expected canonical decimal text
/// (rendered by std's `Display`, independent of itoap).
fn write_int(w: &mut DeferredWriter, ty: u8, bits: u128) -> String {
    use flussab::write::text::ascii_digits as d;
    macro_rules! go {
        ($t:ty) => {{
            let v = bits as $t;
            d(w, v);
            v.to_string()
        }};
    }
    match ty {
        0 => go!(i8),
        1 => go!(u8),
        2 => go!(i16),
        3 => go!(u16),
        4 => go!(i32),
        5 => go!(u32),
        6 => go!(i64),
        7 => go!(u64),
        8 => go!(i128),
        9 => go!(u128),
        10 => go!(isize),
        _ => go!(usize),
    }
}

fn gen_int(rng: &mut Rng) -> (u8, u128) {
    let ty = rng.below(12) as u8;
    let bits: u128 = match rng.below(9) {
        0 => 0,
        1 => 1,
        2 => u128::MAX,                      // -1 / MAX of unsigned
        3 => {
            // MIN of the signed type (or a power of two for unsigned)
            let w = [8, 8, 16, 16, 32, 32, 64, 64, 128, 128, 64, 64][ty as usize];
            1u128 << (w - 1)
        }
        4 => {
            let w = [8, 8, 16, 16, 32, 32, 64, 64, 128, 128, 64, 64][ty as usize];
            (1u128 << (w - 1)) - 1 // MAX of the signed type
        }
        5 | 6 => {
            // powers of ten +- 1, possibly negated
            let k = rng.below(39) as u32;
            let p = 10u128.pow(k);
            let v = match rng.below(3) {
                0 => p,
                1 => p - 1,
                _ => p + 1,
            };
            if rng.chance(1, 2) {
                v
            } else {
                v.wrapping_neg()
            }
        }
        _ => ((rng.next_u64() as u128) << 64) | rng.next_u64() as u128,
    };
    (ty, bits)
}

pub const FMT_KINDS: u8 = 18;
/// Kinds from here on are `write!` / `writeln!` calls on the writer itself (see `write_macro`).
pub const FMT_MACRO_FROM: u8 = 14;

/// Real format writers as workload. Deterministic in (kind, seed).
fn fmt_write(w: &mut Option<DeferredWriter>, kind: u8, seed: u32) {
    use flussab_aiger::aig::{AndGate, Latch, OrderedAndGate, OrderedLatch, Symbol, SymbolTarget};
    let mut rng = Rng::new(seed as u64 ^ 0xf00d);
    let wr = w.as_mut().unwrap();
    match kind {
        0 => flussab_cnf::cnf::write_header(
            wr,
            flussab_cnf::cnf::Header {
                var_count: rng.small(crate::rng::TWO_POW_40),
                clause_count: rng.small(crate::rng::TWO_POW_40),
            },
        ),
        1 => {
            let n = rng.small(12);
            let lits: Vec<i32> = (0..n)
                .map(|_| {
                    let v = 1 + rng.small(i32::MAX as usize - 1) as i32;
                    if rng.chance(1, 2) {
                        v
                    } else {
                        -v
                    }
                })
                .collect();
            flussab_cnf::cnf::write_clause(wr, &lits);
        }
        2 => {
            let n = rng.small(8);
            let lits: Vec<i64> = (0..n)
                .map(|_| {
                    let v = 1 + (rng.next_u64() >> 1) as i64 % i64::MAX;
                    if rng.chance(1, 2) {
                        v
                    } else {
                        -v
                    }
                })
                .collect();
            flussab_cnf::cnf::write_clause(wr, &lits);
        }
        3 => {
            let n = rng.small(8);
            let lits: Vec<i8> = (0..n)
                .map(|_| {
                    let v = 1 + rng.below(127) as i8;
                    if rng.chance(1, 2) {
                        v
                    } else {
                        -v
                    }
                })
                .collect();
            flussab_cnf::cnf::write_clause(wr, &lits);
        }
        4 => flussab_cnf::wcnf::write_header(
            wr,
            flussab_cnf::wcnf::Header {
                var_count: rng.small(1 << 30),
                clause_count: rng.small(1 << 30),
                top_weight: rng.next_u64() >> rng.below(64),
            },
        ),
        5 => {
            let n = rng.small(8);
            let lits: Vec<isize> = (0..n)
                .map(|_| {
                    let v = 1 + rng.small(crate::rng::TWO_POW_40) as isize;
                    if rng.chance(1, 2) {
                        v
                    } else {
                        -v
                    }
                })
                .collect();
            flussab_cnf::wcnf::write_clause(wr, rng.next_u64() >> rng.below(64), &lits);
        }
        6 => {
            let n = rng.small(8);
            let lits: Vec<i16> = (0..n)
                .map(|_| {
                    let v = 1 + rng.below(i16::MAX as usize) as i16;
                    if rng.chance(1, 2) {
                        v
                    } else {
                        -v
                    }
                })
                .collect();
            flussab_cnf::gcnf::write_clause(wr, rng.small(usize::MAX), &lits);
        }
        7 => flussab_cnf::gcnf::write_header(
            wr,
            flussab_cnf::gcnf::Header {
                var_count: rng.small(1 << 30),
                clause_count: rng.small(1 << 30),
                group_count: rng.small(1 << 30),
            },
        ),
        8 => {
            let aw = flussab_aiger::ascii::Writer::<u32>::new(wr);
            match rng.below(5) {
                0 => aw.write_lit(rng.next_u64() as u32),
                1 => aw.write_latch(Latch {
                    state: rng.next_u64() as u32 & !1,
                    next_state: rng.next_u64() as u32,
                    initialization: *rng.pick(&[None, Some(false), Some(true)]),
                }),
                2 => aw.write_and_gate(AndGate {
                    inputs: [rng.next_u64() as u32, rng.small(1000) as u32],
                    output: rng.next_u64() as u32 & !1,
                }),
                3 => aw.write_count(rng.small(usize::MAX)),
                _ => aw.write_comment("a comment\nwith two lines"),
            }
        }
        9 => {
            let aw = flussab_aiger::ascii::Writer::<u64>::new(wr);
            let name: String = (0..rng.small(20))
                .map(|_| *rng.pick(&['a', 'Z', '_', ' ', '9', '\u{e4}', '\u{20ac}']))
                .collect();
            aw.write_symbol(&Symbol {
                target: match rng.below(4) {
                    0 => SymbolTarget::Input(rng.small(1 << 20)),
                    1 => SymbolTarget::Output(rng.small(1 << 20)),
                    2 => SymbolTarget::Latch(rng.small(1 << 20)),
                    _ => SymbolTarget::JusticeProperty(rng.small(1 << 20)),
                },
                name: name.into(),
            });
        }
        10 => {
            // binary AIGER writer owns the DeferredWriter: move it in and out again
            let inner = w.take().unwrap();
            let mut bw = flussab_aiger::binary::Writer::<usize>::new(inner);
            let inputs = rng.small(40);
            let latches = rng.small(3);
            let ands = rng.small(6);
            bw.write_header(&flussab_aiger::binary::Header {
                max_var_index: inputs + latches + ands,
                input_count: inputs,
                latch_count: latches,
                output_count: 0,
                and_gate_count: ands,
                bad_state_property_count: 0,
                invariant_constraint_count: 0,
                justice_property_count: rng.below(2),
                fairness_constraint_count: 0,
            });
            for _ in 0..latches {
                bw.write_latch(OrderedLatch {
                    next_state: rng.small(2 * (inputs + latches) + 1),
                    initialization: *rng.pick(&[None, Some(false), Some(true)]),
                });
            }
            for _ in 0..ands {
                let code = bw.code;
                let a = rng.below(code);
                let b = rng.below(a + 1);
                bw.write_and_gate(OrderedAndGate {
                    inputs: if rng.chance(1, 2) { [a, b] } else { [b, a] },
                });
            }
            *w = Some(bw.writer);
        }
        11 | 12 | 13 => {
            use flussab_btor2::btor2::*;
            let id = NodeId::new(1 + (rng.next_u64() >> rng.below(64)).max(0));
            let a = NodeId::new(1 + rng.small(1 << 30) as u64);
            let b = NodeId::new(1 + rng.small(1 << 30) as u64);
            let nodes = [a, b, id];
            let cst: String = (0..1 + rng.small(70)).map(|_| *rng.pick(&['0', '1'])).collect();
            let variant = match rng.below(8) {
                0 => NodeVariant::Sort(Sort::bit_vec(1 + rng.small(1 << 20) as u64)),
                1 => NodeVariant::Sort(Sort::Array(Array(a, b))),
                2 => NodeVariant::Value(Value {
                    sort: a,
                    variant: ValueVariant::Const(Const::Binary(
                        BinaryConst::try_from(cst.as_str()).unwrap(),
                    )),
                }),
                3 => NodeVariant::Value(Value {
                    sort: a,
                    variant: ValueVariant::Op(Op::Unary(
                        UnaryOp::Slice(rng.next_u64() >> rng.below(64), rng.small(99) as u64),
                        b,
                    )),
                }),
                4 => NodeVariant::Value(Value {
                    sort: a,
                    variant: ValueVariant::Op(Op::Ternary(TernaryOp::Ite, [a, b, a])),
                }),
                5 => NodeVariant::Assignment(Assignment {
                    state: a,
                    sort: b,
                    kind: AssignmentKind::Next,
                    value: a,
                }),
                6 => NodeVariant::Output(Output::Justice(&nodes[..1 + rng.below(3)])),
                _ => NodeVariant::Value(Value {
                    sort: b,
                    variant: ValueVariant::Op(Op::Binary(BinaryOp::Concat, [a, b])),
                }),
            };
            let sym = b"sym_name"[..].into();
            let com = b" a trailing comment"[..].into();
            let line = if kind == 13 {
                Line::Comment(com)
            } else {
                Line::Node(Node {
                    id,
                    variant,
                    symbol: if rng.chance(1, 3) { Some(sym) } else { None },
                    comment: if kind == 12 { Some(com) } else { None },
                })
            };
            line.write_into(w.as_mut().unwrap());
        }
        _ => {}
    }
}

/// `write!` / `writeln!` straight on the `DeferredWriter` (it implements `io::Write`, so
/// `write_fmt` is part of its surface) with all kinds of arguments. The expected bytes come from
/// std's `format!`, not from the writer. Deterministic in `seed`.
fn write_macro(w: Option<&mut DeferredWriter>, seed: u32) -> (Vec<u8>, Option<io::Result<()>>) {
    let mut rng = Rng::new(seed as u64 ^ 0xfa77);
    let chars = ['a', 'Z', ' ', '\n', '0', '\u{b5}', '\u{e4}', '\u{df}', '\u{20ac}', '\u{1f600}', '\u{7f}', '\u{80}', '\u{ff}', '\u{100}'];
    let c = *rng.pick(&chars);
    let c2 = *rng.pick(&chars);
    let text: String = (0..rng.small(24)).map(|_| *rng.pick(&chars)).collect();
    let n = rng.next_u64() >> rng.below(64);
    let i = (rng.next_u64() >> rng.below(64)) as i64 * if rng.chance(1, 2) { -1 } else { 1 };
    let width = rng.small(40);
    let f = (n as f64) / 7.0;
    macro_rules! both {
        ($($arg:tt)*) => {{
            let exp = format!($($arg)*).into_bytes();
            let r = w.map(|w| write!(w, $($arg)*));
            (exp, r)
        }};
    }
    match rng.below(14) {
        0 => both!("{c}"),
        1 => both!("{c}{c2}{c}"),
        2 => both!("{text}"),
        3 => both!("{text:?}"),
        4 => both!("{c:?}"),
        5 => both!("{n}"),
        6 => both!("{i:+}"),
        7 => both!("{n:>width$}"),
        8 => both!("{n:\u{b7}>width$}"),
        9 => both!("{text:\u{20ac}^width$}"),
        10 => both!("{n:#x} {i:#b}"),
        11 => both!("p cnf {n} {i}\n"),
        12 => both!("{f:.3} {f:e}"),
        _ => both!("{c:\u{e4}<width$}|"),
    }
}

fn fmt_expected(kind: u8, seed: u32) -> Vec<u8> {
    let mut out = vec![];
    {
        let mut w = Some(DeferredWriter::from_write(&mut out));
        fmt_write(&mut w, kind, seed);
        let mut w = w.unwrap();
        w.flush().expect("reference writer over a Vec cannot fail");
    }
    out
}

const CAPS: [usize; 12] = [0, 1, 2, 7, 19, 20, 21, 39, 40, 41, 64, 300];

fn gen_case(rng: &mut Rng, c14: bool) -> WriterCase {
    // under Miri: small capacities only (filling 16 KiB byte by byte is slow there) and short histories
    let cap = if rng.chance(1, 10) && !cfg!(miri) {
        None
    } else if cfg!(miri) {
        Some(*rng.pick(&CAPS[..11]))
    } else {
        Some(*rng.pick(&CAPS))
    };
    let class = if c14 {
        *rng.pick(&[0u8, 1, 2, 3, 3, 3])
    } else {
        *rng.pick(&[0u8, 1, 1, 2, 2, 2])
    };
    let sink = gen_sink(rng, class);
    let capv = cap.unwrap_or(16 << 10);
    let fmt_heavy = rng.chance(1, 4);
    let nops = if cfg!(miri) {
        2 + rng.small(14)
    } else if rng.chance(1, 100) {
        // a long session (hundreds of calls)
        200 + rng.below(400)
    } else if cap.is_none() {
        5 + rng.small(40)
    } else {
        3 + rng.small(80)
    };
    let mut ops = vec![];
    // one shipped-capacity run in 30 contains multi-megabyte writes
    let giant = cap.is_none() && !cfg!(miri) && rng.chance(1, 30);
    let len = |rng: &mut Rng| -> usize {
        if giant && rng.chance(1, 8) {
            // a multi-megabyte blob in one call
            return rng.range(1 << 20, 5 << 20);
        }
        match rng.below(10) {
            0 => 0,
            1..=3 => rng.small(8),
            4..=5 => rng.range(0, 3 * capv.min(6000) + 2),
            6 => capv.saturating_sub(rng.below(3)) + rng.below(3),
            7 => {
                // around the free space after some fill
                rng.range(0, capv.min(70000) + 1)
            }
            _ => rng.small(48),
        }
    };
    for _ in 0..nops {
        let w: &[usize] = if fmt_heavy {
            &[2, 2, 2, 4, 1, 20, 2, 1, 2, 0]
        } else {
            &[8, 8, 8, 14, 5, 3, 4, 2, 4, 0]
        };
        ops.push(match rng.weighted(w) {
            0 => WOp::Write(len(rng), rng.next_u64() as u32),
            1 => WOp::WriteAll(len(rng), rng.next_u64() as u32),
            2 => WOp::WriteDefer(len(rng), rng.next_u64() as u32),
            3 => {
                let (t, b) = gen_int(rng);
                WOp::Digits(t, b)
            }
            4 => {
                let l = rng.small(capv.min(400) + 4);
                let adv = if rng.chance(3, 4) { l } else { rng.below(l + 1) };
                WOp::BufPtr(l, adv, rng.next_u64() as u32)
            }
            5 => WOp::Fmt(rng.below(FMT_KINDS as usize) as u8, rng.next_u64() as u32),
            6 => WOp::Flush,
            7 => WOp::FlushDefer,
            _ => WOp::Check,
        });
    }
    if rng.chance(1, 3) {
        let at = rng.below(ops.len() + 1);
        ops.truncate(at);
        ops.push(if class <= 2 && rng.chance(1, 3) {
            WOp::DropUnwinding
        } else {
            WOp::Drop
        });
    }
    WriterCase {
        cap,
        boxed: rng.chance(1, 2),
        class,
        sink,
        ops,
    }
}

fn viol(check: &'static str, sig: &str, detail: String) -> Option<Violation> {
    Some(Violation {
        check,
        signature: sig.to_string(),
        detail,
    })
}

fn op_name(op: &WOp) -> String {
    match op {
        WOp::Write(l, _) => format!("write({l} bytes)"),
        WOp::WriteAll(l, _) => format!("write_all({l} bytes)"),
        WOp::WriteDefer(l, _) => format!("write_all_defer_err({l} bytes)"),
        WOp::Digits(t, b) => format!("ascii_digits::<{}>(bits {b:#x})", INT_TYPES[*t as usize]),
        WOp::BufPtr(l, a, _) => format!("buf_write_ptr({l})+advance_unchecked({a})"),
        WOp::Fmt(k, s) => format!("format_writer(kind {k}, seed {s})"),
        WOp::Flush => "flush()".into(),
        WOp::FlushDefer => "flush_defer_err()".into(),
        WOp::Check => "check_io_error()".into(),
        WOp::Drop => "drop".into(),
        WOp::DropUnwinding => "drop while unwinding from an unrelated panic".into(),
    }
}

fn op_enc(op: &WOp) -> String {
    match op {
        WOp::Write(l, s) => format!("w:{l}:{s}"),
        WOp::WriteAll(l, s) => format!("a:{l}:{s}"),
        WOp::WriteDefer(l, s) => format!("d:{l}:{s}"),
        WOp::Digits(t, b) => format!("i:{t}:{b}"),
        WOp::BufPtr(l, a, s) => format!("p:{l}:{a}:{s}"),
        WOp::Fmt(k, s) => format!("m:{k}:{s}"),
        WOp::Flush => "F".into(),
        WOp::FlushDefer => "f".into(),
        WOp::Check => "c".into(),
        WOp::Drop => "X".into(),
        WOp::DropUnwinding => "U".into(),
    }
}

fn op_dec(s: &str) -> Option<WOp> {
    let parts: Vec<&str> = s.split(':').collect();
    Some(match parts[0] {
        "w" => WOp::Write(parts.get(1)?.parse().ok()?, parts.get(2)?.parse().ok()?),
        "a" => WOp::WriteAll(parts.get(1)?.parse().ok()?, parts.get(2)?.parse().ok()?),
        "d" => WOp::WriteDefer(parts.get(1)?.parse().ok()?, parts.get(2)?.parse().ok()?),
        "i" => WOp::Digits(parts.get(1)?.parse().ok()?, parts.get(2)?.parse().ok()?),
        "p" => WOp::BufPtr(
            parts.get(1)?.parse().ok()?,
            parts.get(2)?.parse().ok()?,
            parts.get(3)?.parse().ok()?,
        ),
        "m" => WOp::Fmt(parts.get(1)?.parse().ok()?, parts.get(2)?.parse().ok()?),
        "F" => WOp::Flush,
        "f" => WOp::FlushDefer,
        "c" => WOp::Check,
        "X" => WOp::Drop,
        "U" => WOp::DropUnwinding,
        _ => return None,
    })
}

/// Incremental greedy subsequence matcher: is `accepted` an in-order selection of `written`?
struct Selection {
    acc_done: usize,
    wr_pos: usize,
}

impl Selection {
    fn extend(&mut self, accepted: &[u8], written: &[u8]) -> bool {
        while self.acc_done < accepted.len() {
            let b = accepted[self.acc_done];
            match written[self.wr_pos..].iter().position(|&x| x == b) {
                Some(i) => {
                    self.wr_pos += i + 1;
                    self.acc_done += 1;
                }
                None => return false,
            }
        }
        true
    }
}

impl Prop for WriterProp {
    type Case = WriterCase;

    fn id(&self) -> &'static str {
        if self.c14 {
            "C14w"
        } else {
            "C11"
        }
    }

    fn meta(&self) -> Meta {
        let mut m = self.base_meta();
        if self.c14 {
            m.rule = "C11 histories with hostile sinks added (a sink that claims more bytes than offered, a sink that panics inside write; the panic out of write_all is caught and the writer is used again, incl. buf_write_ptr + advance_unchecked and drop); oracle: every byte that reaches the sink must have been written (in-order selection of the written stream), no unexpected panic, and the red zones behind the harness allocator's heap blocks must be intact when the history ends; non-trivial/distinct as for C11";
        }
        m
    }

    fn runs(&self, tier: Tier) -> u64 {
        self.runs_for(tier)
    }

    fn gen(&self, rng: &mut Rng, _tier: Tier) -> WriterCase {
        gen_case(rng, self.c14)
    }

    fn exec(&self, case: &WriterCase, st: &mut Stats) -> RunOut {
        self.exec_impl(case, st)
    }

    fn shrink(&self, case: &WriterCase) -> Vec<WriterCase> {
        self.shrink_impl(case)
    }

    fn encode(&self, case: &WriterCase, kv: &mut Kv) {
        self.encode_impl(case, kv)
    }

    fn decode(&self, kv: &Kv) -> Option<WriterCase> {
        self.decode_impl(kv)
    }

    fn sample(&self, case: &WriterCase) -> Json {
        self.sample_impl(case)
    }
}

impl WriterProp {
    fn base_meta(&self) -> Meta {
        Meta {
            level: "exploration",
            rule: "seeded operation histories (<= 84 ops: write / write_all / write_all_defer_err of 0..3*capacity bytes, ascii_digits for all 12 integer types, buf_write_ptr+advance_unchecked, the real cnf/wcnf/gcnf/aag/aig/btor2 writers, flush, flush_defer_err, check_io_error, drop) on a real DeferredWriter (capacities 0..300 through the verif hook, and the shipped 16 KiB constructor) over a SimSink (accept-all / short writes + Interrupted / failing incl. Ok(0)); a run is non-trivial iff the sink was called at least twice (capacity flushes or write-through happened); distinct = distinct (capacity, sink-trace hash, op-history hash)",
            assumptions: vec![
                "expected integer text is rendered by std::fmt (independent of itoap)",
                "expected output of a format writer is what the same format writer produces through a fresh DeferredWriter over a Vec (fast path only)",
                "failing-sink clause: 'in-order duplicate-free selection' is checked as greedy subsequence match over random payload bytes; a duplicated segment of k bytes escapes only if it embeds into the bytes written after it (needs about 256*k further bytes)",
            ],
            real: vec!["flussab::DeferredWriter", "flussab::write::text::ascii_digits", "itoap", "std::io::Write::write_all", "format writers of flussab-cnf / flussab-aiger / flussab-btor2"],
            stub: vec!["byte sink (SimSink)"],
        }
    }

    fn runs_for(&self, tier: Tier) -> u64 {
        let dbg = cfg!(debug_assertions);
        match (self.c14, tier, dbg) {
            (false, Tier::Quick, true) => 800_000,
            (false, Tier::Quick, false) => 400_000,
            (false, Tier::Thorough, true) => 40_000_000,
            (false, Tier::Thorough, false) => 30_000_000,
            (true, Tier::Quick, true) => 400_000,
            (true, Tier::Quick, false) => 200_000,
            (true, Tier::Thorough, true) => 12_000_000,
            (true, Tier::Thorough, false) => 4_000_000,
        }
    }

    fn exec_impl(&self, case: &WriterCase, st: &mut Stats) -> RunOut {
        let sink = SimSink::new(case.sink.clone());
        let mut trace = Fnv::default();
        let overruns0 = crate::alloc::overruns();
        let failing = case.class >= 2;
        let hostile = case.class >= 3;
        let pfx = if self.c14 { "C14" } else { "C11" };
        let name = |s: &'static str| -> &'static str {
            // static names per mode
            match (pfx, s) {
                ("C11", "prefix") => "C11.prefix",
                ("C11", "flush_equal") => "C11.flush_equal",
                ("C11", "drop_equal") => "C11.drop_equal",
                ("C11", "report_once") => "C11.report_once",
                ("C11", "call_while_parked") => "C11.call_while_parked",
                ("C11", "selection") => "C11.selection",
                ("C11", "write_failed") => "C11.write_failed",
                ("C11", "after_report") => "C11.after_report",
                ("C11", "panic") => "C11.panic",
                ("C14", "panic") => "C14.unexpected_panic",
                ("C14", "invented") => "C14.sink_saw_foreign_bytes",
                _ => "",
            }
        };

        let mut w: Option<DeferredWriter> = Some(match (case.cap, case.boxed) {
            (None, false) => DeferredWriter::from_write(sink.clone()),
            (None, true) => DeferredWriter::from_boxed_dyn_write(Box::new(sink.clone())),
            (Some(c), _) => DeferredWriter::verif_with_capacity(Box::new(sink.clone()), c),
        });
        st.hit(match case.cap {
            None => "cap.shipped_16k",
            Some(c) if c < 8 => "cap.tiny",
            Some(c) if c < 64 => "cap.small",
            _ => "cap.medium",
        });
        st.hit(match case.class {
            0 => "sink.accept_all",
            1 => "sink.benign_short_interrupted",
            2 => "sink.failing",
            _ => "sink.hostile",
        });

        let mut written: Vec<u8> = vec![];
        let mut violation: Option<Violation> = None;
        let mut parked = false; // an unreported sink failure exists
        let mut parked_what: Option<(ErrorKind, String)> = None;
        let mut parked_os: Option<i32> = None;
        let mut clean_from: Option<usize> = Some(0); // bytes from here on must all arrive at next Ok flush
        let mut sel = Selection {
            acc_done: 0,
            wr_pos: 0,
        };
        let mut prefix_checked = 0usize;
        let mut panicked_once = false;
        let mut had_failure = false;
        let mut dropped = false;
        let mut opi = 0;

        while violation.is_none() && opi < case.ops.len() && !dropped {
            let op = case.ops[opi];
            opi += 1;
            st.steps += 1;
            let opn = op_name(&op);
            let ctx = |what: String| format!("op #{opi} {opn}: {what}");
            let log_before = sink.state().log.len();
            let parked_before = parked;
            let mut appended: Vec<u8> = vec![];
            // what the call reported
            let mut reported: Option<Result<(), (ErrorKind, String)>> = None;
            let mut write_ret_bad: Option<String> = None;

            let res = crash::catch(|| match op {
                WOp::Write(l, s) => {
                    let p = payload(l, s);
                    let r = w.as_mut().unwrap().write(&p);
                    match r {
                        Ok(n) if n == l => {}
                        other => write_ret_bad = Some(format!("write returned {other:?}")),
                    }
                    appended = p;
                }
                WOp::WriteAll(l, s) => {
                    let p = payload(l, s);
                    if let Err(e) = w.as_mut().unwrap().write_all(&p) {
                        write_ret_bad = Some(format!("write_all returned Err({e})"));
                    }
                    appended = p;
                }
                WOp::WriteDefer(l, s) => {
                    let p = payload(l, s);
                    w.as_mut().unwrap().write_all_defer_err(&p);
                    appended = p;
                }
                WOp::Digits(t, b) => {
                    let exp = write_int(w.as_mut().unwrap(), t, b);
                    appended = exp.into_bytes();
                }
                WOp::BufPtr(l, adv, s) => {
                    let wr = w.as_mut().unwrap();
                    let p = wr.buf_write_ptr(l);
                    if p.is_null() {
                        st.hit("reach.buf_write_ptr_null");
                    } else {
                        st.hit("reach.buf_write_ptr_some");
                        let fill = payload(l, s);
                        // SAFETY: buf_write_ptr(l) promised l writable bytes; adv <= l
                        unsafe {
                            std::ptr::copy_nonoverlapping(fill.as_ptr(), p, l);
                            wr.advance_unchecked(adv.min(l));
                        }
                        appended = fill[..adv.min(l)].to_vec();
                    }
                }
                WOp::Fmt(k, s) if k >= FMT_MACRO_FROM => {
                    let (exp, r) = write_macro(w.as_mut(), s);
                    if let Some(Err(e)) = r {
                        write_ret_bad = Some(format!("write!/writeln! returned Err({e})"));
                    }
                    appended = exp;
                }
                WOp::Fmt(k, s) => {
                    appended = fmt_expected(k, s);
                    fmt_write(&mut w, k, s);
                }
                WOp::Flush => {
                    let r = w.as_mut().unwrap().flush();
                    reported = Some(r.map_err(|e| (e.kind(), crate::sink::describe_error(&e))));
                }
                WOp::FlushDefer => w.as_mut().unwrap().flush_defer_err(),
                WOp::Check => {
                    let r = w.as_mut().unwrap().check_io_error();
                    reported = Some(r.map_err(|e| (e.kind(), crate::sink::describe_error(&e))));
                }
                WOp::Drop => {
                    drop(w.take());
                    dropped = true;
                }
                WOp::DropUnwinding => {
                    let wr = w.take();
                    let r = std::panic::catch_unwind(std::panic::AssertUnwindSafe(move || {
                        let _in_scope = wr;
                        std::panic::panic_any(UnrelatedPanic);
                    }));
                    assert!(r.is_err());
                    st.hit("fault.drop_while_unwinding");
                    dropped = true;
                }
            });
            written.extend_from_slice(&appended);

            // sink activity during this op
            let s = sink.state();
            let calls: Vec<(usize, WRes)> = s.log[log_before..].to_vec();
            st.steps += calls.len() as u64;
            let fail_idx = calls
                .iter()
                .position(|c| matches!(c.1, WRes::Err(_) | WRes::Zero));
            let hostile_call = calls.iter().any(|c| matches!(c.1, WRes::Lie | WRes::Panic));
            for c in &calls {
                trace.u64(c.0 as u64);
            }

            if let Err(p) = &res {
                trace.str("panic");
                if hostile && hostile_call {
                    st.hit("fault.caught_sink_lie_or_panic");
                    panicked_once = true;
                    if w.is_none() {
                        // the binary AIGER writer owned the writer while the sink panicked
                        dropped = true;
                        break;
                    }
                } else {
                    violation = viol(
                        name("panic"),
                        "unexpected panic in DeferredWriter",
                        ctx(p.short()),
                    );
                    break;
                }
            }

            if !self.c14 && !panicked_once {
                if let Some(bad) = write_ret_bad {
                    violation = viol(
                        name("write_failed"),
                        "a write call did not report success",
                        ctx(bad),
                    );
                    break;
                }
                // no sink call between a failure and its report
                if parked_before && !calls.is_empty() {
                    violation = viol(
                        name("call_while_parked"),
                        "sink called while an unreported error was parked",
                        ctx(format!("calls={calls:?}")),
                    );
                    break;
                }
                if let Some(i) = fail_idx {
                    if i + 1 != calls.len() {
                        violation = viol(
                            name("call_while_parked"),
                            "sink called again after it failed, before the failure was reported",
                            ctx(format!("calls={calls:?}")),
                        );
                        break;
                    }
                    parked = true;
                    clean_from = None;
                    parked_what = Some(match calls[i].1 {
                        WRes::Err(k) => (k, SinkState::fail_msg(s.fail_seq)),
                        _ => (ErrorKind::WriteZero, String::new()),
                    });
                    parked_os = s.last_os_error.take();
                    st.hit("fault.sink_failure_parked");
                }
                // reports
                if let Some(rep) = &reported {
                    match (rep, parked) {
                        (Ok(()), false) => {}
                        (Err((k, msg)), true) => {
                            let (wk, mut wmsg) = parked_what.clone().unwrap();
                            if let Some(code) = parked_os.take() {
                                wmsg = std::io::Error::from_raw_os_error(code).to_string();
                            }
                            if *k != wk || (wk != ErrorKind::WriteZero && *msg != wmsg) {
                                violation = viol(
                                    name("report_once"),
                                    "the reported error is not the sink's error",
                                    ctx(format!("got {k:?} {msg:?}, sink failed with {wk:?} {wmsg:?}")),
                                );
                                break;
                            }
                            parked = false;
                            parked_what = None;
                            clean_from = Some(written.len());
                            st.hit("reach.error_reported");
                        }
                        (Ok(()), true) => {
                            violation = viol(
                                name("report_once"),
                                "a sink failure was not reported by the next flush/check_io_error",
                                ctx(format!("sink failed with {:?}", parked_what)),
                            );
                            break;
                        }
                        (Err((k, msg)), false) => {
                            violation = viol(
                                name("report_once"),
                                "an error was reported although no unreported sink failure exists",
                                ctx(format!("got {k:?} {msg:?}")),
                            );
                            break;
                        }
                    }
                }
                // content oracles: until the sink has failed for the first time it is just a benign
                // sink, so the exact (prefix / equality) oracle applies in the failing class too
                if fail_idx.is_some() {
                    had_failure = true;
                }
                if !failing || !had_failure {
                    let acc = &s.accepted;
                    if acc.len() > written.len()
                        || acc[prefix_checked..] != written[prefix_checked..acc.len()]
                    {
                        let at = (prefix_checked..acc.len().min(written.len()))
                            .find(|&i| acc[i] != written[i])
                            .unwrap_or(written.len().min(acc.len()));
                        violation = viol(
                            name("prefix"),
                            "sink content is not a prefix of the written stream",
                            ctx(format!(
                                "first difference at byte {at}: sink has {:?}, written {:?} (sink {} bytes, written {} bytes)",
                                show_bytes(&acc[at.min(acc.len())..(at + 16).min(acc.len())]),
                                show_bytes(&written[at.min(written.len())..(at + 16).min(written.len())]),
                                acc.len(),
                                written.len()
                            )),
                        );
                        break;
                    }
                    prefix_checked = acc.len();
                    let must_equal = matches!(op, WOp::Flush) && matches!(reported, Some(Ok(())))
                        || matches!(op, WOp::Drop | WOp::DropUnwinding);
                    if must_equal && acc.len() != written.len() {
                        violation = viol(
                            if matches!(op, WOp::Drop | WOp::DropUnwinding) {
                                name("drop_equal")
                            } else {
                                name("flush_equal")
                            },
                            "after flush/drop the sink has not received everything written",
                            ctx(format!("sink {} bytes, written {} bytes", acc.len(), written.len())),
                        );
                        break;
                    }
                } else {
                    if !sel.extend(&s.accepted, &written) {
                        violation = viol(
                            name("selection"),
                            "sink content is not an in-order duplicate-free selection of the written stream",
                            ctx(format!(
                                "sink byte #{} ({:?}...) cannot be matched after written offset {}",
                                sel.acc_done,
                                show_bytes(&s.accepted[sel.acc_done..(sel.acc_done + 12).min(s.accepted.len())]),
                                sel.wr_pos
                            )),
                        );
                        break;
                    }
                    if matches!(op, WOp::Flush) && matches!(reported, Some(Ok(()))) {
                        if let Some(from) = clean_from {
                            let tail = &written[from..];
                            if !s.accepted.ends_with(tail) {
                                violation = viol(
                                    name("after_report"),
                                    "bytes written after an error report (no new failure) are missing after a successful flush",
                                    ctx(format!("{} bytes expected at the end of the sink", tail.len())),
                                );
                                break;
                            }
                        }
                    }
                }
            } else if self.c14 {
                // memory-exposure oracle: whatever reaches the sink must be bytes that were written
                // (checked call by call below on the accepted stream: in-order selection)
                if !sel.extend(&s.accepted, &written) && !panicked_once {
                    violation = viol(
                        name("invented"),
                        "sink received bytes that were never written",
                        ctx(format!("sink byte #{}", sel.acc_done)),
                    );
                    break;
                }
                if let Some(i) = fail_idx {
                    let _ = i;
                    st.hit("fault.sink_failure_parked");
                }
            }
            drop(s);
        }

        // implicit drop at the end of the history
        if violation.is_none() && !dropped {
            let r = crash::catch(|| drop(w.take()));
            let s = sink.state();
            if r.is_err() {
                if !(hostile) {
                    violation = viol(
                        name("panic"),
                        "unexpected panic in DeferredWriter::drop",
                        "panic in drop at end of history".into(),
                    );
                }
            } else if !self.c14 && !panicked_once {
                // the flush performed by the drop itself may have been the first failure
                if s.c.errors + s.c.zeros > 0 {
                    had_failure = true;
                }
                if !failing || !had_failure {
                    if s.accepted != written {
                        violation = viol(
                            name("drop_equal"),
                            "after flush/drop the sink has not received everything written",
                            format!(
                                "final drop: sink {} bytes, written {} bytes",
                                s.accepted.len(),
                                written.len()
                            ),
                        );
                    }
                } else if !sel.extend(&s.accepted, &written) {
                    violation = viol(
                        name("selection"),
                        "sink content is not an in-order duplicate-free selection of the written stream",
                        "final drop".into(),
                    );
                }
            }
        }

        if sink.state().budget_exceeded {
            // the sink stopped recording (an extremely long but finite run): no verdict
            st.hit("note.sink_call_budget_exceeded_no_verdict");
            violation = None;
        }
        // whatever happened above: never let the writer's Drop run outside of a catch
        if w.is_some() {
            let _ = crash::catch(|| drop(w.take()));
        }
        // red zones behind every heap block of this thread: a write past the end of the writer's
        // buffer is seen when the buffer is freed (at the latest by the drop above)
        if self.c14 && violation.is_none() && crate::alloc::overruns() > overruns0 {
            violation = viol(
                "C14.heap_overrun",
                "DeferredWriter wrote past the end of a heap block (red zone damaged)",
                format!(
                    "{} damaged block(s) freed during this history",
                    crate::alloc::overruns() - overruns0
                ),
            );
        }
        let s = sink.state();
        st.add("fault.short_write", s.c.short_writes);
        st.add("fault.write_interrupted", s.c.interrupted);
        st.add("fault.write_zero", s.c.zeros);
        st.add("fault.sink_error", s.c.errors);
        st.add("fault.sink_lie", s.c.lies);
        st.add("fault.sink_panic", s.c.panics);
        st.add("sink.calls", s.c.calls);
        if dropped {
            st.hit("fault.drop_mid_history");
        }
        trace.u64(s.trace.0);
        trace.bytes(&s.accepted);
        let key = if s.c.calls >= 2 {
            let mut k = Fnv::default();
            k.u64(case.cap.map_or(u64::MAX, |c| c as u64));
            k.u64(s.trace.0);
            for op in &case.ops {
                k.str(&op_enc(op));
            }
            Some(k.0)
        } else {
            None
        };
        RunOut {
            violation,
            key,
            trace: trace.0,
        }
    }

    fn shrink_impl(&self, case: &WriterCase) -> Vec<WriterCase> {
        let mut out = vec![];
        if case.sink.steps.len() > 0 {
            for i in 0..case.sink.steps.len().min(64) {
                let mut c = case.clone();
                c.sink.steps.remove(i);
                out.push(c);
            }
            for i in 0..case.sink.steps.len().min(64) {
                if case.sink.steps[i] != WStep::Accept {
                    let mut c = case.clone();
                    c.sink.steps[i] = WStep::Accept;
                    out.push(c);
                }
            }
        }
        let n = case.ops.len();
        if n > 1 {
            let mut c = case.clone();
            c.ops.truncate(n / 2);
            out.push(c);
            let mut c = case.clone();
            c.ops.drain(..n / 2);
            out.push(c);
        }
        for i in (0..n).rev() {
            let mut c = case.clone();
            c.ops.remove(i);
            out.push(c);
        }
        for i in 0..n {
            let alts: Vec<WOp> = match case.ops[i] {
                WOp::Write(l, s) | WOp::WriteAll(l, s) | WOp::WriteDefer(l, s) if l > 0 => {
                    vec![WOp::WriteDefer(l / 2, s), WOp::WriteDefer(l - 1, s)]
                }
                WOp::BufPtr(l, a, s) if l > 0 => vec![WOp::BufPtr(l - 1, a.min(l - 1), s)],
                WOp::Fmt(_, s) => vec![WOp::WriteDefer(8, s)],
                WOp::Digits(t, b) if b != 0 => vec![WOp::Digits(t, 0), WOp::Digits(t, b / 10)],
                _ => vec![],
            };
            for a in alts {
                let mut c = case.clone();
                c.ops[i] = a;
                out.push(c);
            }
        }
        if let Some(cap) = case.cap {
            if cap > 0 {
                for nc in [cap / 2, cap - 1] {
                    let mut c = case.clone();
                    c.cap = Some(nc);
                    out.push(c);
                }
            }
        }
        out.retain(|c| c.sink.live());
        out
    }

    fn encode_impl(&self, case: &WriterCase, kv: &mut Kv) {
        kv.put("case.c14", self.c14);
        kv.put(
            "case.cap",
            case.cap.map_or("shipped".to_string(), |c| c.to_string()),
        );
        kv.put("case.boxed", case.boxed);
        kv.put("case.class", case.class);
        kv.put("case.sink", case.sink.encode());
        kv.put(
            "case.ops",
            case.ops.iter().map(op_enc).collect::<Vec<_>>().join(","),
        );
        kv.put(
            "case.ops_readable",
            case.ops.iter().map(op_name).collect::<Vec<_>>().join("; "),
        );
    }

    fn decode_impl(&self, kv: &Kv) -> Option<WriterCase> {
        let cap = match kv.get("case.cap")? {
            "shipped" => None,
            s => Some(s.parse().ok()?),
        };
        let ops_s = kv.get("case.ops")?;
        Some(WriterCase {
            cap,
            boxed: kv.get("case.boxed")? == "true",
            class: kv.get("case.class")?.parse().ok()?,
            sink: SinkCfg::decode(kv.get("case.sink")?)?,
            ops: if ops_s.is_empty() {
                vec![]
            } else {
                ops_s.split(',').map(op_dec).collect::<Option<Vec<_>>>()?
            },
        })
    }

    fn sample_impl(&self, case: &WriterCase) -> Json {
        Json::obj(vec![
            (
                "capacity",
                Json::s(case.cap.map_or("shipped 16384".to_string(), |c| c.to_string())),
            ),
            ("sink_class", Json::U(case.class as u64)),
            ("sink_plan", Json::s(case.sink.encode())),
            (
                "ops",
                Json::s(case.ops.iter().map(op_name).collect::<Vec<_>>().join("; ")),
            ),
        ])
    }
}
