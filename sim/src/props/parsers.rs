//! C01 (schedule independence) and C04 (failing source => I/O error): differential checks of the
//! seven real parsers under simulated read schedules and injected source faults.

use std::rc::Rc;

use crate::drive::{aiger_counts_small, transcript, Ctor, Outcome, PCfg, PKind, Transcript, Via, ALL_KINDS};
use crate::framework::{Meta, Prop, RunOut, Stats, Tier, Violation};
use crate::gen;
use crate::json::{hex, show_bytes, Json, Kv};
use crate::rng::{Fnv, Rng};
use crate::source::{gen_plan, kind_name, SimSource, SourceCfg, Step, ERR_KINDS};

#[derive(Clone, Debug)]
pub struct ParseCase {
    pub cfg: PCfg,
    pub doc: Vec<u8>,
    /// input class: 0 grammar-valid, 1 mutated, 2 arbitrary
    pub class: u8,
    /// token spans of the (unmutated) document; used for reach statistics only
    pub spans: Vec<(usize, usize)>,
    pub ctor: Ctor,
    /// junk in front of the document that a BufReader constructor consumes first
    pub junk: Vec<u8>,
    pub src: SourceCfg,
    /// C04: restrict the sweep to this single fault offset (replay / minimisation)
    pub only_k: Option<usize>,
    pub fault_kind: u8,
}

pub const CHUNKS: [usize; 14] = [1, 2, 3, 7, 8, 9, 15, 16, 17, 31, 64, 4096, 16384, 65536];

pub fn gen_cfg(rng: &mut Rng) -> PCfg {
    let kind = *rng.pick(&ALL_KINDS);
    PCfg {
        kind,
        lit: rng.below(5) as u8,
        flag: rng.chance(1, 3),
        whole: kind.is_aiger() && rng.chance(1, 3),
        early: if kind.is_aiger() && rng.chance(1, 3) {
            1 + rng.below(60_000) as u16
        } else {
            0
        },
    }
}

pub fn gen_ctor(rng: &mut Rng) -> Ctor {
    let via = |rng: &mut Rng| match rng.below(5) {
        0 => Via::FromRead,
        1 => {
            if rng.chance(1, 2) {
                Via::FromRead
            } else {
                Via::Advanced
            }
        }
        2 => Via::Boxed,
        _ => Via::BufReader {
            cap: *rng.pick(&[1usize, 2, 3, 8, 64]),
        },
    };
    match rng.below(8) {
        0 => *rng.pick(&[
            Ctor::ParserFromRead,
            Ctor::ParserBoxed,
            Ctor::ParserBufReader { cap: 1 },
            Ctor::ParserBufReader { cap: 3 },
            Ctor::ParserBufReader { cap: 64 },
        ]),
        1 => Ctor::Reader {
            via: via(rng),
            chunk: None,
        },
        _ => Ctor::Reader {
            via: via(rng),
            chunk: Some(*rng.pick(&CHUNKS)),
        },
    }
}

pub fn gen_parse_case(rng: &mut Rng, force_valid: bool) -> ParseCase {
    let mut cfg = gen_cfg(rng);
    let size = if !cfg!(miri) && rng.chance(1, 400) {
        3
    } else if !cfg!(miri) && rng.chance(1, 300) {
        4 // small document with free text much longer than a chunk
    } else {
        rng.weighted(&[3, 5, 2])
    };
    let class = if force_valid {
        0
    } else {
        rng.weighted(&[9, 8, 3]) as u8
    };
    let (doc, spans) = match class {
        2 => {
            let n = [4, 24, 120, 40_000, 120][size] + rng.below(8);
            (gen::arbitrary(rng, cfg.kind, n), vec![])
        }
        c => {
            let d = gen::valid(rng, &cfg, size);
            let spans: Vec<(usize, usize)> = d.toks.iter().map(|t| (t.start, t.len)).collect();
            let mut bytes = d.bytes;
            if c == 1 {
                gen::mutate(rng, &mut bytes, &d.toks);
            }
            (bytes, spans)
        }
    };
    if cfg.whole && !aiger_counts_small(&doc) {
        cfg.whole = false;
    }
    let ctor = gen_ctor(rng);
    let junk = if ctor.uses_bufreader() {
        let n = rng.small(20);
        rng.bytes(n)
    } else {
        vec![]
    };
    let cuts: Vec<usize> = spans
        .iter()
        .flat_map(|&(s, l)| [s + junk.len(), s + l + junk.len()])
        .collect();
    let interrupts = rng.weighted(&[5, 3, 2]) as u8;
    let src = gen_plan(rng, doc.len() + junk.len(), &cuts, interrupts);
    ParseCase {
        cfg,
        doc,
        class,
        spans,
        ctor,
        junk,
        src,
        only_k: None,
        fault_kind: rng.below(crate::source::FAULT_SELECTORS) as u8,
    }
}

fn full_data(case: &ParseCase) -> Rc<Vec<u8>> {
    let mut v = case.junk.clone();
    v.extend_from_slice(&case.doc);
    Rc::new(v)
}

pub fn reference(case: &ParseCase) -> Transcript {
    let src = SimSource::new(Rc::new(case.doc.clone()), SourceCfg::one_shot());
    transcript(&case.cfg, &Ctor::default_one_shot(), src, 0)
}

pub fn run_scheduled(case: &ParseCase, fail_at: Option<usize>) -> (Transcript, SimSource) {
    let mut cfg = case.src.clone();
    let (kind, os) = crate::source::fault_error(case.fault_kind as usize);
    cfg.fail_at = fail_at.map(|k| (k + case.junk.len(), kind));
    cfg.fail_os = if fail_at.is_some() { os } else { None };
    let src = SimSource::new(full_data(case), cfg);
    let t = transcript(&case.cfg, &case.ctor, src.clone(), case.junk.len());
    (t, src)
}

fn outcome_class(o: &Outcome) -> &'static str {
    match o {
        Outcome::CleanEnd => "outcome.clean_end",
        Outcome::Syntax { .. } => "outcome.syntax_error",
        Outcome::Io { .. } => "outcome.io_error",
        Outcome::Panic(_) => "outcome.panic",
    }
}

/// Message with digits and quoted parts removed: the "class" of a syntax error message.
pub fn msg_class(msg: &str) -> String {
    let mut out = String::new();
    let mut in_quote = false;
    for c in msg.chars() {
        if c == '"' {
            in_quote = !in_quote;
            if in_quote {
                out.push_str("\"..\"");
            }
            continue;
        }
        if in_quote {
            continue;
        }
        if c.is_ascii_digit() {
            if !out.ends_with('#') {
                out.push('#');
            }
        } else {
            out.push(c);
        }
    }
    out.truncate(80);
    out
}

fn note_source(st: &mut Stats, src: &SimSource, case: &ParseCase) -> (u64, u64) {
    let s = src.state();
    st.add("fault.short_read", s.c.short_reads);
    st.add("fault.one_byte_read", s.c.one_byte_reads);
    st.add("fault.interrupted", s.c.interrupted);
    st.add("fault.terminal_error", s.c.errors);
    st.add("source.calls", s.c.calls);
    st.steps += s.c.calls;
    if matches!(case.ctor, Ctor::Reader { via: Via::Advanced, .. }) {
        st.hit("reach.parser_on_advanced_reader");
    } else if case.ctor.uses_bufreader() {
        st.hit("fault.prefilled_bufreader");
    }
    if s.budget_exceeded {
        st.hit("note.source_call_budget_exceeded_no_verdict");
    }
    // does a delivery boundary fall strictly inside a token?
    if !case.spans.is_empty() && case.class == 0 {
        let j = case.junk.len();
        let mut straddle = false;
        for &(_, res, before) in s.log.iter() {
            if let crate::source::CallRes::Ok(n) = res {
                let cut = before + n;
                if cut < j {
                    continue;
                }
                let c = cut - j;
                if case.spans.iter().any(|&(a, l)| a < c && c < a + l) {
                    straddle = true;
                    break;
                }
            }
        }
        if straddle {
            st.hit("reach.token_straddles_refill");
        }
    }
    (s.c.ok_calls, s.trace.0)
}

fn case_key(case: &ParseCase, trace: u64) -> u64 {
    let mut k = Fnv::default();
    k.str(&case.cfg.encode());
    k.str(&case.ctor.encode());
    k.bytes(&case.doc);
    k.u64(trace);
    k.0
}

fn encode_case(case: &ParseCase, kv: &mut Kv) {
    kv.put("case.parser", case.cfg.encode());
    kv.put("case.parser_readable", case.cfg.describe());
    kv.put("case.class", case.class);
    kv.put("case.doc", hex(&case.doc));
    kv.put("case.doc_readable", show_bytes(&case.doc));
    kv.put("case.ctor", case.ctor.encode());
    kv.put("case.junk", hex(&case.junk));
    kv.put("case.src", case.src.encode());
    kv.put(
        "case.only_k",
        case.only_k.map_or("-".to_string(), |k| k.to_string()),
    );
    kv.put("case.fault_kind", case.fault_kind);
}

fn decode_case(kv: &Kv) -> Option<ParseCase> {
    Some(ParseCase {
        cfg: PCfg::decode(kv.get("case.parser")?)?,
        doc: kv.get_bytes("case.doc")?,
        class: kv.get("case.class")?.parse().ok()?,
        spans: vec![],
        ctor: Ctor::decode(kv.get("case.ctor")?)?,
        junk: kv.get_bytes("case.junk")?,
        src: SourceCfg::decode(kv.get("case.src")?)?,
        only_k: match kv.get("case.only_k")? {
            "-" => None,
            s => Some(s.parse().ok()?),
        },
        fault_kind: kv.get("case.fault_kind")?.parse().ok()?,
    })
}

fn sample_case(case: &ParseCase) -> Json {
    Json::obj(vec![
        ("parser", Json::s(case.cfg.describe())),
        (
            "input_class",
            Json::s(["grammar-valid", "mutated", "arbitrary"][case.class as usize % 3]),
        ),
        ("input", Json::s(show_bytes(&case.doc))),
        ("ctor", Json::s(case.ctor.encode())),
        ("bufreader_junk_prefix_len", Json::U(case.junk.len() as u64)),
        ("source_plan", Json::s(case.src.encode())),
    ])
}

/// Shared shrinking of (ctor, plan, document).
pub fn shrink_case(case: &ParseCase) -> Vec<ParseCase> {
    let mut out = vec![];
    let with = |f: &dyn Fn(&mut ParseCase)| {
        let mut c = case.clone();
        c.spans = vec![]; // statistics only; keeps the candidates cheap
        f(&mut c);
        c
    };
    if case.cfg.early != 0 {
        out.push(with(&|c| c.cfg.early = 0));
    }
    // constructor
    if case.ctor.uses_bufreader() || !case.junk.is_empty() {
        out.push(with(&|c| {
            c.ctor = Ctor::Reader {
                via: Via::FromRead,
                chunk: match c.ctor {
                    Ctor::Reader { chunk, .. } => chunk,
                    _ => None,
                },
            };
            c.junk.clear();
        }));
    }
    if let Ctor::Reader { via, chunk: Some(ch) } = case.ctor {
        out.push(with(&|c| c.ctor = Ctor::Reader { via, chunk: None }));
        for smaller in [1usize, ch / 2, ch - 1] {
            if smaller >= 1 && smaller < ch {
                out.push(with(&|c| {
                    c.ctor = Ctor::Reader {
                        via,
                        chunk: Some(smaller),
                    }
                }));
            }
        }
    } else if !matches!(case.ctor, Ctor::Reader { .. }) {
        out.push(with(&|c| {
            c.ctor = Ctor::default_one_shot();
            c.junk.clear()
        }));
    }
    // canonical plans
    for plan in [SourceCfg::one_shot(), SourceCfg::bytewise()] {
        if plan.rank() < case.src.rank() {
            out.push(with(&|c| {
                c.src.steps = plan.steps.clone();
                c.src.cycle = plan.cycle
            }));
        }
    }
    if case.src.steps.iter().any(|s| matches!(s, Step::Interrupted | Step::Storm(_))) {
        out.push(with(&|c| c.src.steps.retain(|s| !matches!(s, Step::Interrupted | Step::Storm(_)))));
    }
    // a single cut at position s
    if case.src.rank() > 1 {
        let total = case.doc.len() + case.junk.len();
        for s in 1..total.min(200) {
            out.push(with(&|c| {
                c.src.steps = vec![Step::Deliver(s)];
                c.src.cycle = false
            }));
        }
    }
    for i in 0..case.src.steps.len().min(40) {
        out.push(with(&|c| {
            c.src.steps.remove(i);
        }));
    }
    // document: drop lines, then truncate, then drop single bytes
    let mut starts: Vec<usize> = vec![0];
    for (i, &b) in case.doc.iter().enumerate() {
        if b == b'\n' && i + 1 < case.doc.len() {
            starts.push(i + 1);
        }
    }
    if starts.len() > 1 {
        // ddmin over lines: remove blocks of n/2, n/4, ... lines; at most ~100 candidates per
        // round, so that huge documents shrink in a logarithmic number of rounds
        let nlines = starts.len();
        let mut block = (nlines / 2).max(1);
        let mut cands = 0;
        loop {
            let mut i = 0;
            while i < nlines && cands < 100 {
                let s = starts[i];
                let e = starts.get(i + block).copied().unwrap_or(case.doc.len());
                out.push(with(&|c| {
                    c.doc.drain(s..e);
                    if let Some(k) = c.only_k {
                        c.only_k = Some(if k >= e { k - (e - s) } else { k.min(s) });
                    }
                }));
                cands += 1;
                i += block;
            }
            if block == 1 || cands >= 100 {
                break;
            }
            block /= 2;
        }
    }
    if case.doc.len() > 1 {
        for keep in [case.doc.len() / 2, case.doc.len() - 1] {
            out.push(with(&|c| {
                c.doc.truncate(keep);
                if let Some(k) = c.only_k {
                    c.only_k = Some(k.min(keep));
                }
            }));
        }
    }
    if case.doc.len() <= 120 {
        for i in (0..case.doc.len()).rev() {
            out.push(with(&|c| {
                c.doc.remove(i);
                if let Some(k) = c.only_k {
                    c.only_k = Some(if k > i { k - 1 } else { k });
                }
            }));
        }
    }
    out.retain(|c| c.src.live());
    out
}

// ------------------------------------------------------------------------------------------- C01

pub struct C01;

pub fn diff_transcripts(a: &Transcript, b: &Transcript) -> Option<String> {
    for (i, (x, y)) in a.items.iter().zip(b.items.iter()).enumerate() {
        if x != y {
            return Some(format!("item #{i}: one-shot {x:?} vs scheduled {y:?}"));
        }
    }
    if a.items.len() != b.items.len() {
        return Some(format!(
            "one-shot returned {} items, scheduled run {} (outcomes: {} vs {})",
            a.items.len(),
            b.items.len(),
            a.outcome.short(),
            b.outcome.short()
        ));
    }
    if a.outcome != b.outcome {
        return Some(format!(
            "final outcome: one-shot {} vs scheduled {}",
            a.outcome.short(),
            b.outcome.short()
        ));
    }
    None
}

impl Prop for C01 {
    type Case = ParseCase;
    fn id(&self) -> &'static str {
        "C01"
    }
    fn meta(&self) -> Meta {
        Meta {
            level: "exploration",
            rule: "seeded (parser in 7, literal type in 5, config flag, AIGER parse() vs section readers) x (grammar-valid / mutated / arbitrary input) x (constructor: from_read, from_boxed_dyn_read, from_buf_reader over a partly consumed std BufReader, Parser::from_*; chunk size in {1,2,3,7,8,9,15,16,17,31,64,4096,16384,default}) x (read plan: one-shot, 1 byte, fixed small, geometric, mixed, boundary-targeted cuts at +-1/7/8/9 of token edges; Interrupted none/sparse/bursts); the transcript (items, clean end or error kind+line+column+message) is compared with the same parser on the same bytes from a one-shot source with default chunk size; non-trivial iff the scheduled source served >= 2 successful reads; distinct = distinct (parser cfg, ctor, input, source-trace hash)",
            assumptions: vec![
                "differential oracle: both sides run the same parser on the same bytes, only the arrival schedule differs; a defect that shows identically under every schedule is not C01's business",
                "a panic that is identical on both sides is counted as NOTE (it is a C05 matter), a panic on one side only is a violation",
            ],
            real: vec!["all seven parsers incl. streaming section readers", "flussab::DeferredReader", "flussab::text scanners", "LineReader", "std::io::BufReader"],
            stub: vec!["byte source (SimSource)"],
        }
    }
    fn runs(&self, tier: Tier) -> u64 {
        match (tier, cfg!(debug_assertions)) {
            (Tier::Quick, true) => 1_500_000,
            (Tier::Quick, false) => 1_500_000,
            (Tier::Thorough, true) => 60_000_000,
            (Tier::Thorough, false) => 60_000_000,
        }
    }
    fn gen(&self, rng: &mut Rng, _tier: Tier) -> ParseCase {
        if rng.chance(1, 25) {
            // a valid document with one corrupted token and read boundaries aimed at it (the
            // generator of C08's exact clause): where the error is reported must not depend on
            // the schedule either
            let mut c = crate::props::locate::gen_exact(rng).base;
            c.class = 1;
            return c;
        }
        gen_parse_case(rng, false)
    }
    fn exec(&self, case: &ParseCase, st: &mut Stats) -> RunOut {
        let reference = reference(case);
        let (got, src) = run_scheduled(case, None);
        let (ok_calls, trace) = note_source(st, &src, case);
        st.hit(["input.valid", "input.mutated", "input.arbitrary"][case.class as usize % 3]);
        st.hit(outcome_class(&reference.outcome));
        st.hit(&format!("parser.{}", case.cfg.kind.name()));
        st.steps += reference.items.len() as u64 + got.items.len() as u64;
        let mut violation = None;
        if let Some(d) = diff_transcripts(&reference, &got) {
            violation = Some(Violation {
                check: "C01.transcript",
                signature: format!("parser={} {}", case.cfg.kind.name(), match (&reference.outcome, &got.outcome) {
                    (a, b) if a == b => "items differ".to_string(),
                    (_, Outcome::Panic(p)) => format!("scheduled run panics at {}:{}", p.file, p.line),
                    (Outcome::Panic(p), _) => format!("one-shot run panics at {}:{}", p.file, p.line),
                    (a, b) => format!("{} vs {}", outcome_class(a), outcome_class(b)),
                }),
                detail: d,
            });
        } else if matches!(reference.outcome, Outcome::Panic(_)) {
            st.hit("note.identical_panic_on_both_sides");
        }
        if src.state().budget_exceeded {
            violation = None;
        }
        let mut t = Fnv::default();
        t.u64(trace);
        for i in &got.items {
            t.str(i);
        }
        t.str(&got.outcome.short());
        RunOut {
            violation,
            key: if ok_calls >= 2 { Some(case_key(case, trace)) } else { None },
            trace: t.0,
        }
    }
    fn shrink(&self, case: &ParseCase) -> Vec<ParseCase> {
        shrink_case(case)
    }
    fn encode(&self, case: &ParseCase, kv: &mut Kv) {
        encode_case(case, kv)
    }
    fn decode(&self, kv: &Kv) -> Option<ParseCase> {
        decode_case(kv)
    }
    fn sample(&self, case: &ParseCase) -> Json {
        sample_case(case)
    }
}

// ------------------------------------------------------------------------------------------- C04

pub struct C04;

/// Fault offsets swept for a document of length `len`.
///
/// `units` is the measured cost of the fault-free run (read calls and bytes); the sweep of a very
/// expensive case (megabytes served one byte per read) is thinned out so that one case stays
/// within a fixed amount of work. The bound is a function of counts only, never of wall-clock
/// time, so the sweep is the same in every execution.
fn fault_offsets(case: &ParseCase, units: u64) -> Vec<usize> {
    if let Some(k) = case.only_k {
        return vec![k.min(case.doc.len())];
    }
    let max_offsets = ((1u64 << 28) / units.max(1)).clamp(8, 300) as usize;
    let len = case.doc.len();
    if len <= 300 {
        (0..=len).collect()
    } else {
        // every line/token boundary +-1 plus a regular grid
        let mut v: Vec<usize> = (0..=len).step_by(len / 64 + 1).collect();
        for (i, &b) in case.doc.iter().enumerate() {
            if b == b'\n' || b == b' ' {
                v.extend([i.saturating_sub(1), i, (i + 1).min(len)]);
            }
        }
        v.push(len);
        v.sort_unstable();
        v.dedup();
        if v.len() > max_offsets {
            // huge documents: thin the sweep out evenly (keeps both ends)
            let stride = v.len() / max_offsets + 1;
            let last = *v.last().unwrap();
            v = v.into_iter().step_by(stride).collect();
            if v.last() != Some(&last) {
                v.push(last);
            }
        }
        v
    }
}

impl Prop for C04 {
    type Case = ParseCase;
    fn id(&self) -> &'static str {
        "C04"
    }
    fn meta(&self) -> Meta {
        Meta {
            level: "fault_enumeration",
            rule: "cases sampled as for C01; per case the fault offset k is ENUMERATED over 0..=len (inputs <= 300 bytes; above that every space/newline +-1 plus a 64-point grid): the source delivers the first k bytes under the case's chunking and then fails with a non-Interrupted ErrorKind; evaluations counts (case, k) executions; a case is non-trivial iff its fault-free run performs >= 2 successful reads or the sweep has >= 2 offsets at which the fault fired; distinct = distinct (parser cfg, ctor, input, plan)",
            assumptions: vec![
                "'the parser looked at or past offset k' is decided from the source's side: the failing read() is issued iff a byte at or past k was needed (the reader reads strictly on demand, which C09 checks separately)",
                "reference = the same parser, constructor and chunking on the fault-free source",
                "a panic identical to the fault-free run's panic is a NOTE (C05 matter), not a C04 verdict",
            ],
            real: vec!["all seven parsers incl. streaming section readers", "flussab::DeferredReader", "LineReader::give_up*", "std::io::BufReader"],
            stub: vec!["byte source (SimSource) with terminal error injected at offset k"],
        }
    }
    fn runs(&self, tier: Tier) -> u64 {
        match (tier, cfg!(debug_assertions)) {
            (Tier::Quick, true) => 10_000,
            (Tier::Quick, false) => 10_000,
            (Tier::Thorough, true) => 2_000_000,
            (Tier::Thorough, false) => 2_000_000,
        }
    }
    fn gen(&self, rng: &mut Rng, _tier: Tier) -> ParseCase {
        gen_parse_case(rng, false)
    }
    fn exec(&self, case: &ParseCase, st: &mut Stats) -> RunOut {
        let (free, src0) = run_scheduled(case, None);
        let (ok_calls, trace0) = note_source(st, &src0, case);
        st.hit(["input.valid", "input.mutated", "input.arbitrary"][case.class as usize % 3]);
        st.hit(&format!("parser.{}", case.cfg.kind.name()));
        let (kind, os) = crate::source::fault_error(case.fault_kind as usize);
        let mut violation: Option<Violation> = None;
        let mut fired_n = 0u64;
        let mut t = Fnv::default();
        t.u64(trace0);
        let units = src0.state().c.calls * 4 + case.doc.len() as u64;
        for k in fault_offsets(case, units) {
            crate::framework::heartbeat();
            let (got, src) = run_scheduled(case, Some(k));
            let s = src.state();
            let fired = s.failed;
            st.hit("fault_runs");
            st.extra_evals += 1;
            st.steps += s.c.calls + got.items.len() as u64;
            t.u64(s.trace.0);
            t.str(&got.outcome.short());
            if fired {
                fired_n += 1;
                st.hit("fault.terminal_error_fired");
                st.hit(&match os {
                    Some(code) if code < 0 => format!("fault.library_error_type_as_payload.{}", -code),
                    Some(code) => format!("fault.os_error.{code}"),
                    None => format!("fault.kind.{}", kind_name(kind)),
                });
            } else {
                st.hit("fault.armed_but_never_reached");
            }
            let loc = format!(
                "fault offset k={k} of {} ({} then {:?})",
                case.doc.len(),
                show_bytes(&case.doc[k.saturating_sub(12)..k]),
                kind
            );
            // items handed out are a prefix of the fault-free items
            let mut bad_item = None;
            let free_items = free.handed_out();
            let got_items = got.handed_out();
            for (i, it) in got_items.iter().enumerate() {
                if free_items.get(i) != Some(it) {
                    bad_item = Some(i);
                    break;
                }
            }
            if let Some(i) = bad_item {
                violation = Some(Violation {
                    check: "C04.item_prefix",
                    signature: format!(
                        "parser={} item handed out before the error differs from the fault-free item",
                        case.cfg.kind.name()
                    ),
                    detail: format!(
                        "{loc}: item #{i} is {:?}, fault-free run has {:?}",
                        got_items[i],
                        free_items.get(i)
                    ),
                });
            } else if fired {
                let ok = match &got.outcome {
                    // kind and text, and for simulated (non-OS) failures the typed payload itself:
                    // an error rebuilt from kind + text is not "that I/O error"
                    Outcome::Io { kind: gk, msg, payload } => {
                        *gk == kind
                            && msg.contains(&s.fail_msg())
                            && match os {
                                Some(c) if c >= 0 => true,
                                // the library's own error type as payload: still that payload
                                Some(c) => *payload == Some(usize::MAX - (-c) as usize),
                                None => *payload == s.cfg.fail_at.map(|f| f.0),
                            }
                    }
                    Outcome::Panic(p) => {
                        if matches!(&free.outcome, Outcome::Panic(q) if q == p) {
                            st.hit("note.panic_identical_to_fault_free_run");
                            true
                        } else {
                            false
                        }
                    }
                    _ => false,
                };
                if !ok {
                    violation = Some(Violation {
                        check: "C04.not_io",
                        signature: format!(
                            "parser={} source failed but the final result is: {}",
                            case.cfg.kind.name(),
                            match &got.outcome {
                                Outcome::CleanEnd => "clean end".to_string(),
                                Outcome::Syntax { msg, .. } =>
                                    format!("syntax error ({})", msg_class(msg)),
                                Outcome::Io { kind: gk, msg, payload }
                                    if *gk == kind && msg.contains(&s.fail_msg()) =>
                                    format!("an io error of the same kind and text but not the source's error (typed payload: {payload:?})"),
                                Outcome::Io { .. } => "a different io error".to_string(),
                                Outcome::Panic(p) => format!("panic at {}:{}", p.file, p.line),
                            }
                        ),
                        detail: format!("{loc}: final result {}", got.outcome.short()),
                    });
                }
            } else if got.outcome != free.outcome || got_items.len() != free_items.len() {
                violation = Some(Violation {
                    check: "C04.unfired_differs",
                    signature: format!(
                        "parser={} the failing read was never issued, yet the result differs from the fault-free run",
                        case.cfg.kind.name()
                    ),
                    detail: format!(
                        "{loc}: got {} ({} items), fault-free {} ({} items)",
                        got.outcome.short(),
                        got.items.len(),
                        free.outcome.short(),
                        free.items.len()
                    ),
                });
            }
            if s.budget_exceeded {
                violation = None;
            }
            if violation.is_some() {
                break;
            }
        }
        RunOut {
            violation,
            key: if ok_calls >= 2 || fired_n >= 2 {
                let mut k = Fnv::default();
                k.u64(case_key(case, trace0));
                k.str(&case.src.encode());
                Some(k.0)
            } else {
                None
            },
            trace: t.0,
        }
    }
    fn shrink(&self, case: &ParseCase) -> Vec<ParseCase> {
        let mut out = vec![];
        if case.only_k.is_none() {
            // pin the sweep to single offsets first (cheap bisection over all offsets)
            let (_, src0) = run_scheduled(case, None);
            let units = src0.state().c.calls * 4 + case.doc.len() as u64;
            for k in fault_offsets(case, units) {
                let mut c = case.clone();
                c.only_k = Some(k);
                out.push(c);
            }
            return out;
        }
        out.extend(shrink_case(case));
        out
    }
    fn encode(&self, case: &ParseCase, kv: &mut Kv) {
        encode_case(case, kv)
    }
    fn decode(&self, kv: &Kv) -> Option<ParseCase> {
        decode_case(kv)
    }
    fn sample(&self, case: &ParseCase) -> Json {
        sample_case(case)
    }
}

// ----------------------------------------------------------------------------- C14p (Miri only)

/// Parser drives meant to run under Miri: tiny documents of the parsers that do raw 8-byte loads
/// (BTOR2 keyword scanner, the decimal scanners behind every number token), small chunk sizes and
/// boundary-targeted read plans. Natively this component judges nothing (Miri is the oracle).
pub struct MiriParse;

impl Prop for MiriParse {
    type Case = ParseCase;
    fn id(&self) -> &'static str {
        "C14p"
    }
    fn meta(&self) -> Meta {
        Meta {
            level: "exploration",
            rule: "tiny grammar-valid or mutated btor2 / cnf / aag / aig documents under small chunk sizes and boundary-targeted read plans, executed under Miri",
            assumptions: vec![],
            real: vec!["BTOR2 keyword scanner", "decimal scanners", "parsers"],
            stub: vec!["byte source (SimSource)"],
        }
    }
    fn runs(&self, _tier: Tier) -> u64 {
        0
    }
    fn gen(&self, rng: &mut Rng, _tier: Tier) -> ParseCase {
        let kind = *rng.pick(&[PKind::Btor2, PKind::Btor2, PKind::Btor2, PKind::Cnf, PKind::Aag, PKind::Aig, PKind::SatLog]);
        let cfg = PCfg {
            kind,
            lit: rng.below(5) as u8,
            flag: false,
            whole: false,
            early: 0,
        };
        let d = gen::valid(rng, &cfg, 0);
        let spans: Vec<(usize, usize)> = d.toks.iter().map(|t| (t.start, t.len)).collect();
        let mut doc = d.bytes;
        let class = if rng.chance(1, 3) {
            gen::mutate(rng, &mut doc, &d.toks);
            1
        } else {
            0
        };
        doc.truncate(160);
        let cuts: Vec<usize> = spans.iter().flat_map(|&(s, l)| [s, s + l]).collect();
        let interrupts = rng.below(2) as u8;
        let src = gen_plan(rng, doc.len(), &cuts, interrupts);
        ParseCase {
            cfg,
            doc,
            class,
            spans,
            ctor: Ctor::Reader {
                via: Via::FromRead,
                chunk: Some(*rng.pick(&[1usize, 3, 7, 8, 9, 15, 16, 17, 31, 64])),
            },
            junk: vec![],
            src,
            only_k: None,
            fault_kind: 0,
        }
    }
    fn exec(&self, case: &ParseCase, st: &mut Stats) -> RunOut {
        let (got, src) = run_scheduled(case, None);
        let s = src.state();
        st.steps += s.c.calls + got.items.len() as u64;
        RunOut {
            violation: None,
            key: None,
            trace: s.trace.0,
        }
    }
    fn shrink(&self, _case: &ParseCase) -> Vec<ParseCase> {
        vec![]
    }
    fn encode(&self, case: &ParseCase, kv: &mut Kv) {
        encode_case(case, kv)
    }
    fn decode(&self, kv: &Kv) -> Option<ParseCase> {
        decode_case(kv)
    }
    fn sample(&self, case: &ParseCase) -> Json {
        sample_case(case)
    }
}
