//! C01g: schedule independence with a single item far beyond every buffer size in the tree
//! (a comment line, comment section or symbol name of 64..160 MiB). The parser has to keep the
//! whole item buffered as look-ahead; the result must still be the same function of the bytes for
//! every chunk size and read size, and the items around the giant one must all be handed out.

use crate::drive::{Ctor, Outcome, PCfg, PKind, Via};
use crate::framework::{Meta, Prop, RunOut, Stats, Tier, Violation};
use crate::json::{Json, Kv};
use crate::props::parsers::{diff_transcripts, reference, run_scheduled, ParseCase};
use crate::rng::{Fnv, Rng};
use crate::source::{SourceCfg, Step};

#[derive(Clone, Debug)]
pub struct GiantCase {
    /// 0 cnf comment line, 1 btor2 comment line, 2 aig comment section, 3 solver-log comment,
    /// 4 aag symbol name, 5 btor2 symbol
    pub form: u8,
    pub giant: usize,
    pub seed: u64,
    pub chunk: Option<usize>,
    /// 0: the source fills whatever is offered; otherwise at most this many bytes per read
    pub read: usize,
    pub interrupts: bool,
}

const FORMS: [&str; 6] = [
    "cnf comment line",
    "btor2 comment line",
    "aig comment section",
    "solver-log comment line",
    "aag symbol name",
    "btor2 symbol",
];

fn filler(out: &mut Vec<u8>, n: usize, seed: u64) -> usize {
    let start = out.len();
    out.resize(start + n, 0);
    let s = seed as usize;
    for (i, b) in out[start..].iter_mut().enumerate() {
        *b = b'a' + ((i.wrapping_mul(7).wrapping_add(s) >> 3) % 26) as u8;
    }
    start
}

pub fn build(form: u8, giant: usize, seed: u64) -> (PCfg, Vec<u8>, usize) {
    let mut rng = Rng::new(seed);
    let mut d: Vec<u8> = Vec::with_capacity(giant + 4096);
    let k1 = 3 + rng.below(40);
    // (sometimes thousands of items after the giant one: many refills that split tokens)
    let k2 = if rng.chance(1, 2) { 3 + rng.below(40) } else { 500 + rng.below(6000) };
    let mut at = 0usize;
    let kind = match form % 6 {
        0 => {
            d.extend_from_slice(format!("p cnf 50 {}\n", k1 + k2).as_bytes());
            for i in 0..k1 {
                d.extend_from_slice(format!("{} -{} {} 0\n", 1 + i % 50, 1 + (i * 7) % 50, 1 + (i * 3) % 50).as_bytes());
            }
            d.extend_from_slice(b"c ");
            at = filler(&mut d, giant, seed);
            d.push(b'\n');
            for i in 0..k2 {
                d.extend_from_slice(format!("-{} {} 0\n", 1 + i % 50, 1 + (i * 11) % 50).as_bytes());
            }
            PKind::Cnf
        }
        1 | 5 => {
            d.extend_from_slice(b"1 sort bitvec 8\n");
            for i in 0..k1 {
                d.extend_from_slice(format!("{} input 1 in{}\n", 2 + i, i).as_bytes());
            }
            if form % 6 == 1 {
                d.extend_from_slice(b"; ");
                at = filler(&mut d, giant, seed);
                d.push(b'\n');
            } else {
                d.extend_from_slice(format!("{} input 1 ", 2 + k1).as_bytes());
                at = filler(&mut d, giant, seed);
                d.push(b'\n');
            }
            for i in 0..k2 {
                d.extend_from_slice(format!("{} not 1 {}\n", 3 + k1 + i, 2 + i % k1).as_bytes());
            }
            PKind::Btor2
        }
        2 => {
            d.extend_from_slice(b"aig 1 1 0 1 0\n2\nc\n");
            at = filler(&mut d, giant, seed);
            d.push(b'\n');
            PKind::Aig
        }
        3 => {
            d.extend_from_slice(b"c start\nc ");
            at = filler(&mut d, giant, seed);
            d.extend_from_slice(b"\ns SATISFIABLE\nv 1 -2 3 0\n");
            PKind::SatLog
        }
        _ => {
            d.extend_from_slice(b"aag 2 2 0 1 0\n2\n4\n4\ni0 ");
            at = filler(&mut d, giant, seed);
            d.extend_from_slice(b"\ni1 second\no0 out\n");
            PKind::Aag
        }
    };
    let cfg = PCfg {
        kind,
        lit: 3,
        flag: false,
        whole: false,
        early: 0,
    };
    (cfg, d, at)
}

fn parse_case(c: &GiantCase, giant: usize) -> ParseCase {
    parse_case_at(c, giant).0
}

fn parse_case_at(c: &GiantCase, giant: usize) -> (ParseCase, usize) {
    let (cfg, doc, at) = build(c.form, giant, c.seed);
    let mut steps = vec![];
    if c.interrupts {
        steps.push(Step::Interrupted);
    }
    if c.read != 0 {
        steps.push(Step::Deliver(c.read));
    } else if c.interrupts {
        steps.push(Step::Fill);
    }
    let pc = ParseCase {
        cfg,
        doc,
        class: 0,
        spans: vec![],
        ctor: Ctor::Reader {
            via: Via::FromRead,
            chunk: c.chunk,
        },
        junk: vec![],
        src: SourceCfg {
            cycle: !steps.is_empty(),
            steps,
            fail_at: None,
            fail_os: None,
            poison: None,
        },
        only_k: None,
        fault_kind: (c.seed % crate::source::FAULT_SELECTORS as u64) as u8,
    };
    (pc, at)
}

fn clip(mut s: String) -> String {
    if s.len() > 1500 {
        let mut at = 1500;
        while !s.is_char_boundary(at) {
            at -= 1;
        }
        s.truncate(at);
        s.push_str("...");
    }
    s
}

impl Giant {
    fn exec_c04(&self, c: &GiantCase, st: &mut Stats) -> RunOut {
        let (base, at) = parse_case_at(c, c.giant);
        let len = base.doc.len();
        let mut t = Fnv::default();
        let mut violation = None;
        let mut fired = false;
        st.hit(&format!("giant.{}", FORMS[c.form as usize % 6].replace(' ', "_")));
        st.max("giant_item_bytes", c.giant as u64);
        for k in [at + 1, at + c.giant / 2, at + c.giant - 1, len] {
            crate::framework::heartbeat();
            let mut pc = base.clone();
            pc.only_k = Some(k);
            let mut sub = Stats::default();
            let out = crate::props::parsers::C04.exec(&pc, &mut sub);
            fired |= sub.counters.get("fault.terminal_error_fired").copied().unwrap_or(0) > 0;
            sub.counters.remove("runs");
            st.merge(sub);
            t.u64(out.trace);
            if let Some(mut v) = out.violation {
                v.detail = clip(v.detail);
                v.signature = format!("giant {}: {}", FORMS[c.form as usize % 6], clip(v.signature));
                violation = Some(v);
                break;
            }
        }
        let mut k = Fnv::default();
        k.str(&format!("{c:?}"));
        RunOut {
            violation,
            key: if fired { Some(k.0) } else { None },
            trace: t.0,
        }
    }
}

pub struct Giant {
    /// false: C01g (schedule independence), true: C04g (failing source inside / after the giant item)
    pub c04: bool,
}

impl Prop for Giant {
    type Case = GiantCase;
    fn id(&self) -> &'static str {
        if self.c04 {
            "C04g"
        } else {
            "C01g"
        }
    }
    fn meta(&self) -> Meta {
        if self.c04 {
            return Meta {
                level: "fault_enumeration",
                rule: "documents with ONE item of 64..160 MiB as for C01g; the source fails with a terminal error at four offsets per case: one byte into the giant item, in its middle, at its last byte, and exactly at the end of the input (an error instead of EOF); oracle as for C04 (the failing read was issued => exactly that I/O error; items handed out are a prefix of the fault-free items); evaluations counts (case, offset) executions; non-trivial iff the fault fired; distinct = distinct case parameters",
                assumptions: vec!["the four offsets are fixed relative to the giant item, not sampled"],
                real: vec!["cnf / btor2 / aig / aag / solver-log parsers", "flussab::DeferredReader (buffer growth beyond 64 MiB)", "LineReader::give_up*"],
                stub: vec!["byte source (SimSource) with terminal error injected at offset k"],
            };
        }
        Meta {
            level: "exploration",
            rule: "documents with ONE item of 1..8 MiB (two thirds of the runs) or 64..160 MiB (cnf / btor2 / solver-log comment line, AIGER comment section, aag or btor2 symbol name) between ordinary items (3..40 or 500..6500 items after it); the transcript under a seeded (chunk size in {1000, 4096, default, 65536, 1 MiB}, read size in {as offered, 1000, 4099, 64 KiB, 1 MiB, 1000003}, optional Interrupted before every read) is compared with the one-shot default-chunk transcript of the same bytes, and the number of items and the outcome are compared with the same document carrying a 9-byte item instead; non-trivial iff the scheduled source served >= 2 successful reads; distinct = distinct case parameters",
            assumptions: vec!["the giant item is free text: the grammar puts no limit on its length"],
            real: vec!["cnf / btor2 / aig / aag / solver-log parsers", "flussab::DeferredReader (buffer growth beyond 64 MiB)", "LineReader"],
            stub: vec!["byte source (SimSource)"],
        }
    }
    fn runs(&self, tier: Tier) -> u64 {
        if self.c04 {
            return match (tier, cfg!(debug_assertions)) {
                (Tier::Quick, true) => 1,
                (Tier::Quick, false) => 4,
                (Tier::Thorough, true) => 6,
                (Tier::Thorough, false) => 24,
            };
        }
        match (tier, cfg!(debug_assertions)) {
            (Tier::Quick, true) => 12,
            (Tier::Quick, false) => 36,
            (Tier::Thorough, true) => 60,
            (Tier::Thorough, false) => 240,
        }
    }
    fn gen(&self, rng: &mut Rng, tier: Tier) -> GiantCase {
        // two thirds of the runs: a "merely large" item of 1..8 MiB (beyond every megabyte
        // threshold, cheap); the rest: 64..160 MiB
        let giant = if rng.chance(2, 3) {
            *rng.pick(&[(1usize << 20) + 1, 1_500_000, 3 << 20, (4 << 20) + 4097, 8 << 20])
        } else {
            match tier {
                Tier::Quick => *rng.pick(&[(64usize << 20) + 4096, 65 << 20, (64 << 20) - 14 * 1024]),
                Tier::Thorough => *rng.pick(&[
                    (64usize << 20) + 4096,
                    65 << 20,
                    (64 << 20) - 14 * 1024,
                    100 << 20,
                    (128 << 20) + 1,
                    160 << 20,
                    17 << 20,
                ]),
            }
        };
        GiantCase {
            form: rng.below(6) as u8,
            giant,
            seed: rng.next_u64(),
            chunk: *rng.pick(&[Some(4096usize), None, Some(65536), Some(1 << 20), Some(4096), Some(1000)]),
            read: *rng.pick(&[0usize, 65536, 1 << 20, 1_000_003, 4099, 1000]),
            interrupts: rng.chance(1, 4),
        }
    }
    fn exec(&self, c: &GiantCase, st: &mut Stats) -> RunOut {
        if self.c04 {
            return self.exec_c04(c, st);
        }
        let small = reference(&parse_case(c, 9));
        crate::framework::heartbeat();
        let case = parse_case(c, c.giant);
        let one_shot = reference(&case);
        crate::framework::heartbeat();
        let (got, src) = run_scheduled(&case, None);
        crate::framework::heartbeat();
        let s = src.state();
        st.steps += s.c.calls + got.items.len() as u64;
        st.add("source.calls", s.c.calls);
        st.add("fault.interrupted", s.c.interrupted);
        st.add("fault.short_read", s.c.short_reads);
        st.add("stream.bytes", case.doc.len() as u64);
        st.hit(&format!("giant.{}", FORMS[c.form as usize % 6].replace(' ', "_")));
        st.max("giant_item_bytes", c.giant as u64);
        let name = FORMS[c.form as usize % 6];
        let mut violation = None;
        if let Some(d) = diff_transcripts(&one_shot, &got) {
            violation = Some(Violation {
                check: "C01.transcript",
                signature: format!("giant {name}: result depends on chunk size / read sizes"),
                detail: clip(d),
            });
        } else if one_shot.items.len() != small.items.len()
            || std::mem::discriminant(&one_shot.outcome) != std::mem::discriminant(&small.outcome)
            || !matches!(one_shot.outcome, Outcome::CleanEnd)
        {
            violation = Some(Violation {
                check: "C01.giant_item",
                signature: format!("giant {name}: items around the giant item are lost or the input is rejected"),
                detail: clip(format!(
                    "with a {}-byte item: {} items, {}; the same document with a 9-byte item: {} items, {}",
                    c.giant,
                    one_shot.items.len(),
                    one_shot.outcome.short(),
                    small.items.len(),
                    small.outcome.short()
                )),
            });
        }
        if s.budget_exceeded {
            violation = None;
        }
        let mut t = Fnv::default();
        t.u64(s.trace.0);
        t.u64(got.items.len() as u64);
        t.str(&clip(got.outcome.short()));
        let mut k = Fnv::default();
        k.str(&format!("{c:?}"));
        RunOut {
            violation,
            key: if s.c.ok_calls >= 2 { Some(k.0) } else { None },
            trace: t.0,
        }
    }
    fn shrink(&self, c: &GiantCase) -> Vec<GiantCase> {
        let mut out = vec![];
        if c.giant > 1024 {
            let mut x = c.clone();
            x.giant = c.giant / 2;
            out.push(x);
            let mut x = c.clone();
            x.giant = c.giant - c.giant / 8;
            out.push(x);
        }
        if c.interrupts {
            let mut x = c.clone();
            x.interrupts = false;
            out.push(x);
        }
        if c.read != 0 {
            let mut x = c.clone();
            x.read = 0;
            out.push(x);
        }
        out
    }
    fn encode(&self, c: &GiantCase, kv: &mut Kv) {
        kv.put("case.form", c.form);
        kv.put("case.form_readable", FORMS[c.form as usize % 6]);
        kv.put("case.giant", c.giant);
        kv.put("case.seed", c.seed);
        kv.put("case.chunk", c.chunk.map_or("-".to_string(), |c| c.to_string()));
        kv.put("case.read", c.read);
        kv.put("case.interrupts", c.interrupts);
    }
    fn decode(&self, kv: &Kv) -> Option<GiantCase> {
        Some(GiantCase {
            form: kv.get("case.form")?.parse().ok()?,
            giant: kv.get_usize("case.giant")?,
            seed: kv.get_u64("case.seed")?,
            chunk: match kv.get("case.chunk")? {
                "-" => None,
                s => Some(s.parse().ok()?),
            },
            read: kv.get_usize("case.read")?,
            interrupts: kv.get("case.interrupts")? == "true",
        })
    }
    fn max_threads(&self) -> usize {
        6
    }
    fn sample(&self, c: &GiantCase) -> Json {
        Json::obj(vec![
            ("giant_item", Json::s(FORMS[c.form as usize % 6])),
            ("giant_item_bytes", Json::U(c.giant as u64)),
            ("chunk", Json::s(c.chunk.map_or("default 16384".to_string(), |c| c.to_string()))),
            ("read_size", Json::s(if c.read == 0 { "as offered".to_string() } else { c.read.to_string() })),
            ("interrupted_reads", Json::Bool(c.interrupts)),
        ])
    }
}
