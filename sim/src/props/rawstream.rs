//! C10r and C02m: a consumer of the raw `DeferredReader` API streaming through an unbounded
//! synthetic source (never materialised).
//!
//! * `C10r` (property C10): the consumer keeps a fixed look-ahead buffered (`request(L)` before
//!   each record, or `request_byte_at_offset(L-1)`, or only `request_more()` + `buf()`), consumes
//!   small records, and the per-thread counting allocator observes the peak live heap. The bound
//!   depends on the chunk size and on the look-ahead only, never on the stream length.
//! * `C02m` (property C02): a marathon over more than 4 GiB (2^32 bytes) through one reader with
//!   large chunks; `position()` / `mark()` and the window content must stay right beyond every
//!   32-bit boundary.

use std::io::{self, ErrorKind, Read};

use flussab::DeferredReader;

use crate::alloc;
use crate::crash;
use crate::framework::{Meta, Prop, RunOut, Stats, Tier, Violation};
use crate::json::{Json, Kv};
use crate::props::stream::ReadSizes;
use crate::rng::{Fnv, Rng};

/// Byte at absolute stream position `i`.
#[inline]
fn page_byte(page: u64) -> u8 {
    (page.wrapping_mul(0x9e37_79b9_7f4a_7c15) >> 56) as u8
}

#[inline]
pub fn stream_byte(i: u64) -> u8 {
    page_byte(i >> 12) ^ (i as u8)
}

pub struct SynthSource {
    pub pos: u64,
    pub total: u64,
    sizes: ReadSizes,
    interrupts: bool,
    rng: Rng,
    pub calls: u64,
    pub interrupted: u64,
    pub max_offered: usize,
    pub trace: Fnv,
    /// Terminal failure instead of a clean end.
    pub fail_at_end: bool,
    pub ended: bool,
    /// Sizes of the successful reads since the consumer last cleared it, and all calls since then
    /// (shared with the consumer while the reader holds the source).
    pub op_log: std::rc::Rc<std::cell::RefCell<OpLog>>,
    /// Only the read-accounting consumer clears the log after every call; for everyone else the
    /// sizes are not recorded (an ever-growing vector would be charged to the memory bound).
    pub log_sizes: bool,
    /// marathon under the interpreter: reads are stamped with their offset instead of filled
    pub stamp_only: bool,
}

#[derive(Default)]
pub struct OpLog {
    pub ok_sizes: Vec<usize>,
    pub calls: u64,
    pub calls_after_end: u64,
    /// the source reported EOF or its terminal error (now or earlier)
    pub ended: bool,
}

impl SynthSource {
    pub fn new(c: &RawCase) -> Self {
        SynthSource {
            pos: 0,
            total: c.total,
            sizes: c.sizes,
            interrupts: c.interrupts,
            rng: Rng::new(c.seed ^ 0x5eed),
            calls: 0,
            interrupted: 0,
            max_offered: 0,
            trace: Fnv::default(),
            fail_at_end: c.fail_at_end,
            ended: false,
            op_log: Default::default(),
            log_sizes: false,
            stamp_only: c.marathon,
        }
    }
}

impl Read for SynthSource {
    fn read(&mut self, buf: &mut [u8]) -> io::Result<usize> {
        self.calls += 1;
        {
            let mut l = self.op_log.borrow_mut();
            l.calls += 1;
            if self.ended {
                l.calls_after_end += 1;
            }
        }
        self.max_offered = self.max_offered.max(buf.len());
        if self.interrupts && self.rng.chance(1, 7) {
            self.interrupted += 1;
            self.trace.u64(u64::MAX - 1);
            return Err(io::Error::new(ErrorKind::Interrupted, "simulated EINTR"));
        }
        if buf.is_empty() {
            return Ok(0);
        }
        let left = self.total - self.pos;
        if left == 0 {
            self.op_log.borrow_mut().ended = true;
            if self.fail_at_end && !self.ended {
                self.ended = true;
                self.trace.u64(u64::MAX - 2);
                return Err(io::Error::new(ErrorKind::Other, "simulated source failure at the end of the stream"));
            }
            self.ended = true;
            self.trace.u64(u64::MAX);
            return Ok(0);
        }
        let want = match self.sizes {
            ReadSizes::Full | ReadSizes::LinePerRead => usize::MAX,
            ReadSizes::OneByte => 1,
            ReadSizes::Random(m) => 1 + self.rng.below(m),
        };
        let n = (buf.len().min(want) as u64).min(left) as usize;
        // page-wise fill (vectorises); under the interpreter only a stamp (the reader hands out
        // zeroed space)
        let mut done = 0usize;
        if cfg!(miri) && n >= 8 && self.stamp_only {
            buf[..8].copy_from_slice(&self.pos.to_le_bytes());
            done = n;
        }
        while done < n {
            let at = self.pos + done as u64;
            let page_left = (4096 - (at & 4095)) as usize;
            let seg = page_left.min(n - done);
            let hp = page_byte(at >> 12);
            let low = at as u8;
            for (j, b) in buf[done..done + seg].iter_mut().enumerate() {
                *b = hp ^ low.wrapping_add(j as u8);
            }
            done += seg;
        }
        self.pos += n as u64;
        self.trace.u64(n as u64);
        if self.log_sizes {
            self.op_log.borrow_mut().ok_sizes.push(n);
        }
        Ok(n)
    }
}

#[derive(Clone, Debug)]
pub struct RawCase {
    /// false: C10r (memory bound), true: C02m (marathon beyond 2^32 bytes)
    pub marathon: bool,
    pub chunk: Option<usize>,
    pub sizes: ReadSizes,
    pub interrupts: bool,
    pub seed: u64,
    pub total: u64,
    /// largest record (bytes consumed per step)
    pub max_rec: usize,
    /// look-ahead the consumer keeps buffered
    pub lookahead: usize,
    /// 0 request(L); 1 request_more() + buf() only; 2 request_byte_at_offset(L-1); 3 mixed
    pub pattern: u8,
    pub marks: bool,
    pub fail_at_end: bool,
}

pub fn bound(chunk: usize, item: usize) -> usize {
    // (saturating: on a 32-bit target the marathon's chunk sizes would overflow, and the bound is
    // not used there)
    chunk
        .saturating_mul(16)
        .saturating_add(item.saturating_mul(32))
        .saturating_add(64 << 10)
        .min(isize::MAX as usize)
}

pub struct RawStream {
    pub marathon: bool,
    /// C09h: read accounting with chunk sizes of 1..64 MiB
    pub reads: bool,
}

fn sizes_name(s: ReadSizes) -> String {
    match s {
        ReadSizes::Full => "full".to_string(),
        ReadSizes::LinePerRead => "line".to_string(),
        ReadSizes::OneByte => "one".to_string(),
        ReadSizes::Random(m) => format!("random{m}"),
    }
}

impl RawStream {
    fn name(&self, what: &str) -> &'static str {
        if self.reads {
            return match what {
                "panic" => "C09.panic",
                "extra" => "C09.extra_read",
                "after_end" => "C09.read_after_end",
                "multi" => "C09.refill_reads",
                _ => "C09.stream",
            };
        }
        match (self.marathon, what) {
            (false, "bound") => "C10.raw_bound",
            (false, "panic") => "C10.panic",
            (false, _) => "C10.raw_stream",
            (true, "position") => "C02.position",
            (true, "mark") => "C02.mark",
            (true, "panic") => "C02.panic",
            (true, _) => "C02.window",
        }
    }
}

impl RawStream {
    fn exec_reads(&self, case: &RawCase, st: &mut Stats) -> RunOut {
        let mut src = SynthSource::new(case);
        src.log_sizes = true;
        let log = src.op_log.clone();
        let mut violation: Option<Violation> = None;
        let mut consumed: u64 = 0;
        let mut refills: u64 = 0;
        let mut ops: u64 = 0;
        let r = crash::catch(|| {
            let mut rd = DeferredReader::from_read(&mut src);
            if let Some(c) = case.chunk {
                rd.set_chunk_size(c);
            }
            let mut rng = Rng::new(case.seed);
            let mut end_seen = false;
            loop {
                crate::framework::heartbeat();
                ops += 1;
                let before = rd.buf_len();
                {
                    let mut l = log.borrow_mut();
                    l.ok_sizes.clear();
                    l.calls = 0;
                    l.calls_after_end = 0;
                }
                // one reader call
                let what = rng.below(4);
                let mut need: Option<usize> = None;
                let name: &str;
                let more = match what {
                    0 | 1 => {
                        name = "request_more()";
                        Some(rd.request_more())
                    }
                    2 => {
                        let n = match rng.below(3) {
                            0 => rng.below(before + 1),
                            1 => before + 1 + rng.below(case.lookahead.max(1)),
                            _ => rng.below(case.max_rec.max(1)) + 1,
                        };
                        need = Some(n);
                        name = "request(n)";
                        rd.request(n);
                        None
                    }
                    _ => {
                        let k = rng.below(before + case.lookahead + 1);
                        need = Some(k + 1);
                        name = "request_byte_at_offset(k)";
                        let _ = rd.request_byte_at_offset(k);
                        None
                    }
                };
                let l = log.borrow();
                let oks = &l.ok_sizes;
                refills += oks.len() as u64;
                let ctx = |what: String| {
                    format!(
                        "call #{ops} {name} (need {need:?}) with {before} bytes buffered, {consumed} consumed: {what}; successful reads of this call: {oks:?}"
                    )
                };
                if l.calls_after_end > 0 {
                    violation = Some(Violation {
                        check: self.name("after_end"),
                        signature: "read() issued after the source reported EOF / a terminal error".into(),
                        detail: ctx(format!("{} such calls", l.calls_after_end)),
                    });
                    break;
                }
                match more {
                    Some(_) if oks.len() > 1 || (oks.is_empty() && !l.ended) => {
                        violation = Some(Violation {
                            check: self.name("multi"),
                            signature: "request_more() did not perform exactly one successful read".into(),
                            detail: ctx(format!("{} successful reads, source at its end: {}", oks.len(), l.ended)),
                        });
                        break;
                    }
                    Some(false) if !oks.is_empty() => {
                        violation = Some(Violation {
                            check: self.name("multi"),
                            signature: "request_more() returned false although it read data".into(),
                            detail: ctx(String::new()),
                        });
                        break;
                    }
                    Some(false) => end_seen = true,
                    _ => {}
                }
                if l.ended {
                    end_seen = true;
                }
                if let Some(n) = need {
                    if n <= before && l.calls > 0 {
                        violation = Some(Violation {
                            check: self.name("extra"),
                            signature: "read() issued although the buffered data satisfies the request".into(),
                            detail: ctx(format!("{} calls", l.calls)),
                        });
                        break;
                    }
                    if n > before && oks.len() > 1 {
                        let all_but_last: usize = oks[..oks.len() - 1].iter().sum();
                        if before + all_but_last >= n {
                            violation = Some(Violation {
                                check: self.name("extra"),
                                signature: "a request kept reading after it was satisfied".into(),
                                detail: ctx(String::new()),
                            });
                            break;
                        }
                    }
                }
                drop(l);
                // content spot check, then consume
                let have = rd.buf_len();
                if have == 0 && (end_seen || rd.is_at_end()) {
                    break;
                }
                let w = rd.buf();
                let probe = have.min(32);
                if let Some(j) = (0..probe).find(|&j| w[j] != stream_byte(consumed + j as u64)) {
                    violation = Some(Violation {
                        check: self.name("content"),
                        signature: "reader window differs from the source stream".into(),
                        detail: format!("stream offset {consumed}: byte +{j}"),
                    });
                    break;
                }
                let take = match rng.below(4) {
                    0 => have,
                    1 => 0,
                    _ => rng.below(have.min(case.max_rec) + 1),
                };
                rd.advance(take);
                consumed += take as u64;
                if ops > 20_000 {
                    break;
                }
            }
        });
        if let Err(p) = r {
            violation = Some(Violation {
                check: self.name("panic"),
                signature: "DeferredReader panics while streaming".into(),
                detail: p.short(),
            });
        }
        st.steps += src.calls + ops;
        st.add("stream.bytes", consumed);
        st.add("reader.calls", ops);
        st.add("source.successful_reads", refills);
        st.add("fault.interrupted", src.interrupted);
        st.add("source.calls", src.calls);
        if case.fail_at_end {
            st.hit("fault.terminal_error_at_end");
        }
        st.max("largest_slice_offered_to_source", src.max_offered as u64);
        let mut t = Fnv::default();
        t.u64(src.trace.0);
        t.u64(ops);
        t.u64(consumed);
        let mut k = Fnv::default();
        k.str(&format!("{case:?}"));
        RunOut {
            violation,
            key: if refills >= 3 { Some(k.0) } else { None },
            trace: t.0,
        }
    }
}

impl Prop for RawStream {
    type Case = RawCase;
    fn id(&self) -> &'static str {
        if self.reads {
            "C09h"
        } else if self.marathon {
            "C02m"
        } else {
            "C10r"
        }
    }
    fn meta(&self) -> Meta {
        if self.reads {
            return Meta {
                level: "exploration",
                rule: "read accounting with huge chunks: a DeferredReader with a chunk size of 1..64 MiB streams 3..6 chunks of a synthetic source that fills whatever it is offered (or random amounts up to a chunk), optional Interrupted, clean end or terminal error; the consumer calls request_more() / request(n) / request_byte_at_offset(k) and advances by random amounts; after every call the source's own log of that call is checked: request_more() = exactly one successful read (none once the end was seen), a request that the buffered data satisfies = no read() at all, a larger request = every successful read but the last left the request unsatisfied, no read() after EOF or error; non-trivial iff at least three refills happened; distinct = distinct case parameters",
                assumptions: vec!["constructor from_read (no BufReader in between), so every refill reaches the source"],
                real: vec!["flussab::DeferredReader"],
                stub: vec!["unbounded byte source (SynthSource) with a per-call log"],
            };
        }
        if self.marathon {
            Meta {
                level: "exploration",
                rule: "marathons: one DeferredReader streams more than 2^32 bytes (4 GiB + up to 1 GiB) of a synthetic source whose byte at position i is a function of i, with chunk sizes of 1..16 MiB and records of up to 4 MiB; after every record position(), mark() (when set), the window length and the first/last 16 bytes of the window are compared with the stream positions; non-trivial iff more than 2^32 bytes were consumed; distinct = distinct case parameters",
                assumptions: vec!["64-bit usize (the property's wrap-around of position() at usize::MAX is not reached)"],
                real: vec!["flussab::DeferredReader"],
                stub: vec!["unbounded byte source (SynthSource)"],
            }
        } else {
            Meta {
                level: "exploration",
                rule: "a consumer of the raw reader API streams through a synthetic source of N >= 8 x bound bytes: it keeps a look-ahead of L bytes buffered (request(L) before each record / request_byte_at_offset(L-1) / only request_more() + buf(), or a mix), consumes records of at most m bytes, optionally sets marks; chunk size in {1..65536} (rarely a window of 1..4 MiB with chunks of 64 KiB..1 MiB), read-size policy (full / one byte / random), optional Interrupted, clean end or terminal error; oracle: peak live heap - baseline <= 16*chunk + 32*max(L,m) + 64 KiB at every record, every record equals the stream bytes at its position, position() equals the bytes consumed; non-trivial iff >= 8 x bound bytes were streamed; distinct = distinct case parameters",
                assumptions: vec![
                    "the constants of the bound are those of C10 with the look-ahead in the role of the largest item",
                    "allocations are attributed to the worker thread (thread-local counters)",
                ],
                real: vec!["flussab::DeferredReader (request / request_more / request_byte_at_offset / advance / realign / shrink)", "System allocator (wrapped, counting)"],
                stub: vec!["unbounded byte source (SynthSource)", "record consumer"],
            }
        }
    }
    fn runs(&self, tier: Tier) -> u64 {
        if self.reads {
            return match (tier, cfg!(debug_assertions)) {
                (Tier::Quick, true) => 16,
                (Tier::Quick, false) => 48,
                (Tier::Thorough, true) => 400,
                (Tier::Thorough, false) => 1_200,
            };
        }
        match (self.marathon, tier, cfg!(debug_assertions)) {
            (true, Tier::Quick, true) => 2,
            (true, Tier::Quick, false) => 8,
            (true, Tier::Thorough, true) => 8,
            (true, Tier::Thorough, false) => 64,
            (false, Tier::Quick, true) => 4_000,
            (false, Tier::Quick, false) => 8_000,
            (false, Tier::Thorough, true) => 100_000,
            (false, Tier::Thorough, false) => 200_000,
        }
    }
    fn gen(&self, rng: &mut Rng, tier: Tier) -> RawCase {
        if self.reads {
            let chunk = *rng.pick(&[
                1usize << 20,
                (8 << 20) - 1,
                8 << 20,
                (8 << 20) + 1,
                12 << 20,
                16 << 20,
                32 << 20,
                64 << 20,
                (32 << 20) + 4097,
            ]);
            return RawCase {
                marathon: false,
                chunk: Some(chunk),
                sizes: if rng.chance(2, 3) {
                    ReadSizes::Full
                } else {
                    ReadSizes::Random(chunk)
                },
                interrupts: rng.chance(1, 4),
                seed: rng.next_u64(),
                total: (chunk as u64) * (3 + rng.below(4) as u64) + rng.below(100_000) as u64,
                max_rec: *rng.pick(&[1usize << 16, 1 << 20, 4 << 20, chunk]),
                lookahead: *rng.pick(&[1usize, 4096, 1 << 20, chunk / 2, chunk]),
                pattern: 3,
                marks: false,
                fail_at_end: rng.chance(1, 3),
            };
        }
        if self.marathon && cfg!(miri) {
            // under the interpreter (meant for the 32-bit target, where position() wraps after
            // 2^32 bytes): refills of 128 KiB, everything consumed each time; the source only stamps each read instead of filling
            // it, and only positions are checked
            // (128 KiB: the interpreter's cost per byte grows with the size of the block it touches)
            let chunk = 128usize << 10;
            return RawCase {
                marathon: true,
                chunk: Some(chunk),
                sizes: ReadSizes::Full,
                interrupts: false,
                seed: rng.next_u64(),
                total: (1u64 << 32) + (130 << 20) + rng.below(1 << 20) as u64,
                max_rec: chunk,
                lookahead: 1,
                pattern: rng.below(3) as u8,
                marks: true,
                fail_at_end: false,
            };
        }
        if self.marathon {
            let chunk = *rng.pick(&[1usize << 20, 4 << 20, 16 << 20, (1 << 20) + 4099]);
            return RawCase {
                marathon: true,
                chunk: Some(chunk),
                sizes: if rng.chance(2, 3) {
                    ReadSizes::Full
                } else {
                    ReadSizes::Random(chunk)
                },
                interrupts: rng.chance(1, 4),
                seed: rng.next_u64(),
                total: (1u64 << 32) + 1 + rng.below(1 << 30) as u64,
                max_rec: *rng.pick(&[1usize << 16, 1 << 20, 4 << 20, (1 << 20) - 1]),
                lookahead: *rng.pick(&[1usize, 4096, 1 << 20, 3 << 20]),
                pattern: rng.below(4) as u8,
                marks: rng.chance(1, 2),
                fail_at_end: rng.chance(1, 3),
            };
        }
        if rng.chance(1, 1000) {
            // a window of megabytes kept in front of the cursor (a frame decoder that wants the
            // largest possible frame buffered before it looks at the header)
            let chunk = *rng.pick(&[65_536usize, 1 << 20, 262_144]);
            let lookahead = *rng.pick(&[(1usize << 20) + 1, 2 << 20, 4 << 20]);
            let b = bound(chunk, lookahead) as u64;
            return RawCase {
                marathon: false,
                chunk: Some(chunk),
                sizes: if rng.chance(1, 2) {
                    ReadSizes::Full
                } else {
                    ReadSizes::Random(chunk)
                },
                interrupts: rng.chance(1, 4),
                seed: rng.next_u64(),
                total: b * 8 + rng.below(5000) as u64,
                max_rec: *rng.pick(&[4096usize, 65_536, 20_000]),
                lookahead,
                pattern: rng.below(4) as u8,
                marks: rng.chance(1, 3),
                fail_at_end: rng.chance(1, 4),
            };
        }
        let chunk = match rng.below(8) {
            0 => None,
            _ => Some(*rng.pick(&[1usize, 2, 3, 8, 17, 64, 300, 4096, 16384, 65536])),
        };
        let sizes = match rng.below(6) {
            0..=2 => ReadSizes::Full,
            3 | 4 => ReadSizes::Random(*rng.pick(&[3usize, 40, 1000, 20000, 200_000])),
            _ => ReadSizes::OneByte,
        };
        let ch = chunk.unwrap_or(16 << 10);
        let slow = matches!(sizes, ReadSizes::OneByte | ReadSizes::Random(3)) || ch <= 8;
        let lookahead = if slow {
            *rng.pick(&[1usize, 8, 100, 1000])
        } else {
            match rng.below(6) {
                0 => 1,
                1 => rng.range(2, 64),
                2 => ch,
                3 => ch * rng.range(1, 5) + rng.below(3),
                4 => *rng.pick(&[4096usize, 65536, 100_000, 262_144]),
                _ => rng.range(64, 5000),
            }
        };
        // cost control: the stream is >= 8 x bound bytes and every read moves at most `per_call`
        // bytes, so the look-ahead (which scales the bound) is tied to the read size
        let per_call = match sizes {
            ReadSizes::OneByte => 1,
            ReadSizes::Random(m) => (m / 2).max(1).min(ch),
            _ => ch,
        };
        let lookahead = lookahead.min(per_call.saturating_mul(1000).max(64));
        let max_rec = match rng.below(4) {
            0 => 1,
            1 => lookahead.max(1),
            _ => 1 + rng.small(lookahead.max(2)),
        };
        let b = bound(if slow { ch.min(4096) } else { ch }, lookahead.max(max_rec)) as u64;
        let factor = match tier {
            Tier::Quick => 8 + rng.below(12),
            Tier::Thorough if rng.chance(1, 30) => 400,
            Tier::Thorough => 8 + rng.below(60),
        } as u64;
        let factor = if slow { 8 } else { factor };
        // cost control: at most about a million records per run
        let total = b * factor + rng.below(5000) as u64;
        let max_rec = max_rec.max((total / 400_000) as usize);
        RawCase {
            marathon: false,
            chunk: if slow { Some(ch.min(4096)) } else { chunk },
            sizes,
            interrupts: rng.chance(1, 4),
            seed: rng.next_u64(),
            total,
            max_rec,
            lookahead,
            pattern: rng.below(4) as u8,
            marks: rng.chance(1, 3),
            fail_at_end: rng.chance(1, 4),
        }
    }
    fn exec(&self, case: &RawCase, st: &mut Stats) -> RunOut {
        if self.reads {
            return self.exec_reads(case, st);
        }
        let chunk = case.chunk.unwrap_or(16 << 10);
        let limit = bound(chunk, case.lookahead.max(case.max_rec)) as isize;
        let t0 = std::time::Instant::now();
        let baseline = alloc::reset_peak();
        let mut src = SynthSource::new(case);
        let mut worst: isize = 0;
        let mut consumed: u64 = 0;
        let mut records: u64 = 0;
        let mut violation: Option<Violation> = None;
        let marathon = self.marathon;
        let r = crash::catch(|| {
            let mut rd = DeferredReader::from_read(&mut src);
            if let Some(c) = case.chunk {
                rd.set_chunk_size(c);
            }
            let mut rng = Rng::new(case.seed);
            let mut mark_at: Option<u64> = None;
            loop {
                let rec = if case.max_rec <= 1 { 1 } else { 1 + rng.below(case.max_rec) };
                let pattern = if case.pattern == 3 { rng.below(3) as u8 } else { case.pattern };
                let need = case.lookahead.max(rec);
                if marathon {
                    crate::framework::heartbeat();
                }
                // refill
                match pattern {
                    0 => {
                        rd.request(need);
                    }
                    1 => {
                        while rd.buf_len() < need {
                            if !rd.request_more() {
                                break;
                            }
                        }
                    }
                    _ => {
                        let _ = rd.request_byte_at_offset(need - 1);
                    }
                }
                let have = rd.buf_len();
                if have == 0 {
                    break;
                }
                // (under the interpreter: consume everything, so that realigns have nothing to move)
                let take = if marathon && cfg!(miri) { have } else { rec.min(have) };
                // content of the record
                let w = rd.buf();
                let bad = if marathon && cfg!(miri) {
                    None
                } else if marathon {
                    let n = take.min(16);
                    (0..n).find(|&j| w[j] != stream_byte(consumed + j as u64)).or_else(|| {
                        (take - n..take).find(|&j| w[j] != stream_byte(consumed + j as u64))
                    })
                } else {
                    (0..take).find(|&j| w[j] != stream_byte(consumed + j as u64))
                };
                if let Some(j) = bad {
                    violation = Some(Violation {
                        check: self.name("content"),
                        signature: "reader window differs from the source stream while streaming".into(),
                        detail: format!(
                            "record #{records} at stream offset {consumed}: byte +{j} is {:#04x}, stream has {:#04x}",
                            w[j],
                            stream_byte(consumed + j as u64)
                        ),
                    });
                    break;
                }
                // (truncating: position() wraps at usize::MAX, which a 32-bit target reaches)
                if rd.position() != consumed as usize {
                    violation = Some(Violation {
                        check: self.name("position"),
                        signature: "position() differs from the number of bytes consumed".into(),
                        detail: format!("record #{records}: position()={} consumed={consumed}", rd.position()),
                    });
                    break;
                }
                if let Some(m) = mark_at {
                    if rd.mark() != m as usize {
                        violation = Some(Violation {
                            check: self.name("mark"),
                            signature: "mark() differs from the position at which it was set".into(),
                            detail: format!("record #{records}: mark()={} set at {m}, consumed={consumed}", rd.mark()),
                        });
                        break;
                    }
                }
                if case.marks && rng.chance(1, 3) {
                    rd.set_mark();
                    mark_at = Some(consumed);
                }
                rd.advance(take);
                consumed += take as u64;
                records += 1;
                let p = alloc::peak() - baseline;
                if p > worst {
                    worst = p;
                }
                if !marathon && p > limit {
                    violation = Some(Violation {
                        check: self.name("bound"),
                        signature: format!(
                            "live heap of a raw-reader consumer exceeds the chunk/look-ahead bound (pattern {})",
                            ["request(L)", "request_more+buf", "request_byte_at_offset", "mixed"][case.pattern as usize % 4]
                        ),
                        detail: format!(
                            "peak live heap {p} bytes > bound {limit} (chunk {chunk}, look-ahead {}, max record {}) at record {records}, stream offset {consumed} of {}",
                            case.lookahead, case.max_rec, case.total
                        ),
                    });
                    break;
                }
            }
            if violation.is_none() {
                // the stream ended: everything was consumed, and how it ended is reported
                let err = rd.check_io_error();
                if consumed != case.total {
                    violation = Some(Violation {
                        check: self.name("content"),
                        signature: "the stream ended early for the consumer".into(),
                        detail: format!("consumed {consumed} of {} bytes", case.total),
                    });
                } else if case.fail_at_end != err.is_err() {
                    violation = Some(Violation {
                        check: self.name("content"),
                        signature: "end of stream: parked error and source failure disagree".into(),
                        detail: format!("source failed: {}, check_io_error: {err:?}", case.fail_at_end),
                    });
                }
            }
        });
        if let Err(p) = r {
            violation = Some(Violation {
                check: self.name("panic"),
                signature: "DeferredReader panics while streaming".into(),
                detail: p.short(),
            });
        }
        if std::env::var_os("VERIF_DEBUG_STREAM").is_some() && t0.elapsed().as_millis() > 300 {
            eprintln!("slow {:?}: calls={} records={records} {case:?}", t0.elapsed(), src.calls);
        }
        st.steps += src.calls + records;
        st.add("stream.bytes", consumed);
        st.add("stream.records", records);
        st.add("fault.interrupted", src.interrupted);
        st.add("source.calls", src.calls);
        st.hit(&format!("reads.{}", match case.sizes {
            ReadSizes::Random(_) => "random".to_string(),
            s => sizes_name(s),
        }));
        st.hit(["pattern.request_lookahead", "pattern.request_more_and_buf", "pattern.request_byte_at_offset", "pattern.mixed"][case.pattern as usize % 4]);
        if case.fail_at_end {
            st.hit("fault.terminal_error_at_end");
        }
        if consumed > u32::MAX as u64 {
            st.hit("reach.position_beyond_2^32");
        }
        st.max("peak_live_bytes", worst.max(0) as u64);
        if !marathon {
            st.max("peak_percent_of_bound", worst.max(0) as u64 * 100 / limit as u64);
        }
        st.max("largest_slice_offered_to_source", src.max_offered as u64);
        let mut t = Fnv::default();
        t.u64(src.trace.0);
        t.u64(records);
        t.u64(consumed);
        t.u64(worst as u64);
        let mut k = Fnv::default();
        k.str(&format!("{case:?}"));
        let nontrivial = if marathon {
            consumed > u32::MAX as u64
        } else {
            consumed >= 8 * limit as u64
        };
        RunOut {
            violation,
            key: if nontrivial { Some(k.0) } else { None },
            trace: t.0,
        }
    }
    fn shrink(&self, case: &RawCase) -> Vec<RawCase> {
        let mut out = vec![];
        if !case.marathon && case.total > 4096 {
            let mut c = case.clone();
            c.total = case.total / 2;
            out.push(c);
        }
        if case.interrupts {
            let mut c = case.clone();
            c.interrupts = false;
            out.push(c);
        }
        if case.marks {
            let mut c = case.clone();
            c.marks = false;
            out.push(c);
        }
        if case.fail_at_end {
            let mut c = case.clone();
            c.fail_at_end = false;
            out.push(c);
        }
        if case.pattern == 3 {
            for p in 0..3 {
                let mut c = case.clone();
                c.pattern = p;
                out.push(c);
            }
        }
        if !matches!(case.sizes, ReadSizes::Full) {
            let mut c = case.clone();
            c.sizes = ReadSizes::Full;
            out.push(c);
        }
        out
    }
    fn encode(&self, case: &RawCase, kv: &mut Kv) {
        kv.put("case.marathon", case.marathon);
        kv.put("case.chunk", case.chunk.map_or("-".to_string(), |c| c.to_string()));
        kv.put("case.sizes", sizes_name(case.sizes));
        kv.put("case.interrupts", case.interrupts);
        kv.put("case.seed", case.seed);
        kv.put("case.total", case.total);
        kv.put("case.max_rec", case.max_rec);
        kv.put("case.lookahead", case.lookahead);
        kv.put("case.pattern", case.pattern);
        kv.put("case.marks", case.marks);
        kv.put("case.fail_at_end", case.fail_at_end);
    }
    fn decode(&self, kv: &Kv) -> Option<RawCase> {
        Some(RawCase {
            marathon: kv.get("case.marathon")? == "true",
            chunk: match kv.get("case.chunk")? {
                "-" => None,
                s => Some(s.parse().ok()?),
            },
            sizes: match kv.get("case.sizes")? {
                "full" => ReadSizes::Full,
                "line" => ReadSizes::LinePerRead,
                "one" => ReadSizes::OneByte,
                s => ReadSizes::Random(s.strip_prefix("random")?.parse().ok()?),
            },
            interrupts: kv.get("case.interrupts")? == "true",
            seed: kv.get_u64("case.seed")?,
            total: kv.get_u64("case.total")?,
            max_rec: kv.get_usize("case.max_rec")?,
            lookahead: kv.get_usize("case.lookahead")?,
            pattern: kv.get("case.pattern")?.parse().ok()?,
            marks: kv.get("case.marks")? == "true",
            fail_at_end: kv.get("case.fail_at_end")? == "true",
        })
    }
    fn sample(&self, case: &RawCase) -> Json {
        Json::obj(vec![
            ("consumer", Json::s(["request(L) per record", "request_more() + buf() only", "request_byte_at_offset(L-1) per record", "mixed"][case.pattern as usize % 4])),
            ("chunk", Json::s(case.chunk.map_or("default 16384".to_string(), |c| c.to_string()))),
            ("read_sizes", Json::s(sizes_name(case.sizes))),
            ("stream_bytes", Json::U(case.total)),
            ("lookahead_bytes", Json::U(case.lookahead as u64)),
            ("max_record_bytes", Json::U(case.max_rec as u64)),
            ("marks", Json::Bool(case.marks)),
            ("interrupted_reads", Json::Bool(case.interrupts)),
            ("ends_with_error", Json::Bool(case.fail_at_end)),
        ])
    }
}
