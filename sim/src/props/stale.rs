//! C14 (native, "stale bytes"): a `Read` implementation may scribble over the part of the offered
//! slice it does not fill. Whatever the scanners and parsers return must not depend on what was
//! scribbled there -- if it does, they looked at bytes that were never read from the source.
//! Each case is executed under several poison bytes; all results must be identical.

use std::rc::Rc;

use crate::drive::transcript;
use crate::framework::{Meta, Prop, RunOut, Stats, Tier, Violation};
use crate::json::{show_bytes, Json, Kv};
use crate::props::parsers::{gen_parse_case, MiriParse, ParseCase};
use crate::props::scan::{call_scanner, prepared_reader_poisoned, ScanCase, C13, TYPES};
use crate::rng::{Fnv, Rng};
use crate::source::SimSource;

#[derive(Clone, Debug)]
pub enum StaleCase {
    Scan(ScanCase),
    Parse(ParseCase),
}

pub struct C14Stale;

const POISON_SCAN: [u8; 4] = [b'7', b'x', b'-', 0x00];
const POISON_PARSE: [u8; 4] = [b'a', b'0', b' ', 0x00];

impl Prop for C14Stale {
    type Case = StaleCase;
    fn id(&self) -> &'static str {
        "C14s"
    }
    fn meta(&self) -> Meta {
        Meta {
            level: "exploration",
            rule: "scanner cases (as C13, *_multi variants) and parser drives (as C01 / C14p) executed once per poison byte: the simulated source scribbles the poison over the unused rest of every slice it is offered (legal for a Read implementation), and the first read is offered 16 bytes more than it delivers; the returned values / transcripts must be identical under all poisons (digits, letters, '-', blank, NUL), otherwise the code looked at bytes that were never read from the source; non-trivial iff the source served >= 2 reads or left slack after a read; distinct = distinct case",
            assumptions: vec![
                "a Read implementation is allowed to modify the whole slice it is given; only the first n bytes it reports are data",
            ],
            real: vec!["flussab::text::*_multi scanners", "BTOR2 keyword scanner", "all seven parsers", "flussab::DeferredReader"],
            stub: vec!["byte source (SimSource) that scribbles beyond the bytes it delivers"],
        }
    }
    fn runs(&self, tier: Tier) -> u64 {
        match (tier, cfg!(debug_assertions)) {
            (Tier::Quick, true) => 600_000,
            (Tier::Quick, false) => 600_000,
            (Tier::Thorough, true) => 30_000_000,
            (Tier::Thorough, false) => 30_000_000,
        }
    }
    fn gen(&self, rng: &mut Rng, tier: Tier) -> StaleCase {
        match rng.below(4) {
            0 | 1 => StaleCase::Scan(C13.gen(rng, tier)),
            2 => StaleCase::Parse(MiriParse.gen(rng, tier)),
            _ => StaleCase::Parse(gen_parse_case(rng, false)),
        }
    }
    fn exec(&self, case: &StaleCase, st: &mut Stats) -> RunOut {
        let mut t = Fnv::default();
        let mut violation = None;
        let mut key = Fnv::default();
        match case {
            StaleCase::Scan(c) => {
                st.hit("kind.scanner");
                let data = Rc::new(c.data.clone());
                let mut first: Option<(u8, String)> = None;
                for &p in &POISON_SCAN {
                    let (mut r, src) = prepared_reader_poisoned(c, &data, Some(p));
                    let res = call_scanner(&mut r, c.ty, c.signed_fn, true, c.offset);
                    st.steps += 1 + src.state().c.calls;
                    let rendered = format!("{res:?}");
                    t.str(&rendered);
                    match &first {
                        None => first = Some((p, rendered)),
                        Some((p0, r0)) => {
                            if *r0 != rendered {
                                violation = Some(Violation {
                                    check: "C14.stale_bytes",
                                    signature: format!(
                                        "{}_multi::<{}> result depends on bytes the source never delivered",
                                        if c.signed_fn { "signed_ascii_digits" } else { "ascii_digits" },
                                        TYPES[c.ty as usize % 12]
                                    ),
                                    detail: format!(
                                        "input {:?} offset {} buffered {}: with scribble byte {:#04x} -> {}, with {:#04x} -> {}",
                                        show_bytes(&data), c.offset, c.buffered, p0, r0, p, rendered
                                    ),
                                });
                                break;
                            }
                        }
                    }
                }
                key.bytes(&c.data);
                key.u64(c.offset as u64);
                key.u64(c.buffered as u64);
                key.byte(c.ty);
            }
            StaleCase::Parse(c) => {
                st.hit("kind.parser");
                let mut first: Option<(u8, crate::drive::Transcript)> = None;
                let mut full = c.junk.clone();
                full.extend_from_slice(&c.doc);
                let full = Rc::new(full);
                for &p in &POISON_PARSE {
                    let mut cfg = c.src.clone();
                    cfg.poison = Some(p);
                    let src = SimSource::new(full.clone(), cfg);
                    let tr = transcript(&c.cfg, &c.ctor, src.clone(), c.junk.len());
                    st.steps += src.state().c.calls + tr.items.len() as u64;
                    t.str(&tr.outcome.short());
                    match &first {
                        None => first = Some((p, tr)),
                        Some((p0, t0)) => {
                            if let Some(d) = crate::props::parsers::diff_transcripts(t0, &tr) {
                                violation = Some(Violation {
                                    check: "C14.stale_bytes",
                                    signature: format!(
                                        "parser={} result depends on bytes the source never delivered",
                                        c.cfg.kind.name()
                                    ),
                                    detail: format!(
                                        "scribble byte {:#04x} vs {:#04x}: {d} (input {:?})",
                                        p0, p, show_bytes(&c.doc)
                                    ),
                                });
                                break;
                            }
                        }
                    }
                }
                key.str(&c.cfg.encode());
                key.str(&c.ctor.encode());
                key.bytes(&c.doc);
                key.str(&c.src.encode());
            }
        }
        RunOut {
            violation,
            key: Some(key.0),
            trace: t.0,
        }
    }
    fn shrink(&self, case: &StaleCase) -> Vec<StaleCase> {
        match case {
            StaleCase::Scan(c) => C13.shrink(c).into_iter().map(StaleCase::Scan).collect(),
            StaleCase::Parse(c) => crate::props::parsers::shrink_case(c)
                .into_iter()
                .map(StaleCase::Parse)
                .collect(),
        }
    }
    fn encode(&self, case: &StaleCase, kv: &mut Kv) {
        match case {
            StaleCase::Scan(c) => {
                kv.put("case.kind", "scan");
                C13.encode(c, kv)
            }
            StaleCase::Parse(c) => {
                kv.put("case.kind", "parse");
                MiriParse.encode(c, kv)
            }
        }
    }
    fn decode(&self, kv: &Kv) -> Option<StaleCase> {
        match kv.get("case.kind")? {
            "scan" => Some(StaleCase::Scan(C13.decode(kv)?)),
            _ => Some(StaleCase::Parse(MiriParse.decode(kv)?)),
        }
    }
    fn sample(&self, case: &StaleCase) -> Json {
        match case {
            StaleCase::Scan(c) => C13.sample(c),
            StaleCase::Parse(c) => MiriParse.sample(c),
        }
    }
}
