//! Counting global allocator with thread-local counters, so that runs on different worker threads
//! do not see each other. Wraps `System`; behaviour is otherwise unchanged.

use std::alloc::{GlobalAlloc, Layout, System};
use std::cell::Cell;

pub struct Counting;

thread_local! {
    static LIVE: Cell<isize> = const { Cell::new(0) };
    static PEAK: Cell<isize> = const { Cell::new(0) };
    static ALLOCS: Cell<u64> = const { Cell::new(0) };
    static SHRINKS: Cell<u64> = const { Cell::new(0) };
}

#[inline]
fn add(n: isize) {
    let _ = LIVE.try_with(|l| {
        let v = l.get() + n;
        l.set(v);
        if n > 0 {
            let _ = PEAK.try_with(|p| {
                if v > p.get() {
                    p.set(v)
                }
            });
        }
    });
}

unsafe impl GlobalAlloc for Counting {
    unsafe fn alloc(&self, layout: Layout) -> *mut u8 {
        let p = System.alloc(layout);
        if !p.is_null() {
            add(layout.size() as isize);
            let _ = ALLOCS.try_with(|a| a.set(a.get() + 1));
        }
        p
    }
    unsafe fn dealloc(&self, ptr: *mut u8, layout: Layout) {
        System.dealloc(ptr, layout);
        add(-(layout.size() as isize));
    }
    unsafe fn alloc_zeroed(&self, layout: Layout) -> *mut u8 {
        let p = System.alloc_zeroed(layout);
        if !p.is_null() {
            add(layout.size() as isize);
            let _ = ALLOCS.try_with(|a| a.set(a.get() + 1));
        }
        p
    }
    unsafe fn realloc(&self, ptr: *mut u8, layout: Layout, new_size: usize) -> *mut u8 {
        let p = System.realloc(ptr, layout, new_size);
        if !p.is_null() {
            // transient old+new is not modelled by System.realloc's interface; count the delta
            add(new_size as isize - layout.size() as isize);
            if new_size < layout.size() {
                let _ = SHRINKS.try_with(|a| a.set(a.get() + 1));
            }
            let _ = ALLOCS.try_with(|a| a.set(a.get() + 1));
        }
        p
    }
}

/// Live bytes allocated by the current thread minus bytes freed by it.
pub fn live() -> isize {
    LIVE.with(|l| l.get())
}

/// Resets the peak to the current live value and returns the live value (the baseline).
pub fn reset_peak() -> isize {
    let v = live();
    PEAK.with(|p| p.set(v));
    v
}

pub fn peak() -> isize {
    PEAK.with(|p| p.get())
}

pub fn alloc_calls() -> u64 {
    ALLOCS.with(|a| a.get())
}

pub fn shrink_events() -> u64 {
    SHRINKS.with(|a| a.get())
}
