//! Counting global allocator with thread-local counters (so that runs on different worker threads
//! do not see each other) and a tail red zone behind every allocation (an in-process, always-on
//! detector for small heap overruns: the pattern is checked when the block is freed or resized).
//! Wraps `System`; behaviour is otherwise unchanged. Under Miri the red zone is off (Miri checks
//! every access itself).

use std::alloc::{GlobalAlloc, Layout, System};
use std::cell::Cell;

pub struct Counting;

const RZ: usize = if cfg!(miri) { 0 } else { 64 };
const PATTERN: u8 = 0xFD;

thread_local! {
    static LIVE: Cell<isize> = const { Cell::new(0) };
    static PEAK: Cell<isize> = const { Cell::new(0) };
    static ALLOCS: Cell<u64> = const { Cell::new(0) };
    static SHRINKS: Cell<u64> = const { Cell::new(0) };
    static OVERRUNS: Cell<u64> = const { Cell::new(0) };
}

#[inline]
fn add(n: isize) {
    let _ = LIVE.try_with(|l| {
        let v = l.get() + n;
        l.set(v);
        if n > 0 {
            let _ = PEAK.try_with(|p| {
                if v > p.get() {
                    p.set(v)
                }
            });
        }
    });
}

#[inline]
fn padded(layout: Layout) -> Layout {
    if RZ == 0 {
        return layout;
    }
    // SAFETY-relevant: size + RZ cannot overflow isize for any allocation that can succeed
    match Layout::from_size_align(layout.size().saturating_add(RZ), layout.align()) {
        Ok(l) => l,
        Err(_) => layout,
    }
}

#[inline]
unsafe fn paint(p: *mut u8, size: usize) {
    if RZ != 0 {
        std::ptr::write_bytes(p.add(size), PATTERN, RZ);
    }
}

#[inline]
unsafe fn check(p: *mut u8, size: usize) {
    if RZ != 0 {
        let tail = std::slice::from_raw_parts(p.add(size), RZ);
        if tail.iter().any(|&b| b != PATTERN) {
            let _ = OVERRUNS.try_with(|o| o.set(o.get() + 1));
        }
    }
}

unsafe impl GlobalAlloc for Counting {
    unsafe fn alloc(&self, layout: Layout) -> *mut u8 {
        let pl = padded(layout);
        let p = System.alloc(pl);
        if !p.is_null() {
            if pl.size() != layout.size() {
                paint(p, layout.size());
            }
            add(layout.size() as isize);
            let _ = ALLOCS.try_with(|a| a.set(a.get() + 1));
        }
        p
    }
    unsafe fn dealloc(&self, ptr: *mut u8, layout: Layout) {
        let pl = padded(layout);
        if pl.size() != layout.size() {
            check(ptr, layout.size());
        }
        System.dealloc(ptr, pl);
        add(-(layout.size() as isize));
    }
    unsafe fn alloc_zeroed(&self, layout: Layout) -> *mut u8 {
        let pl = padded(layout);
        let p = System.alloc_zeroed(pl);
        if !p.is_null() {
            if pl.size() != layout.size() {
                paint(p, layout.size());
            }
            add(layout.size() as isize);
            let _ = ALLOCS.try_with(|a| a.set(a.get() + 1));
        }
        p
    }
    unsafe fn realloc(&self, ptr: *mut u8, layout: Layout, new_size: usize) -> *mut u8 {
        let pl = padded(layout);
        let has_rz = pl.size() != layout.size();
        let new_padded = if has_rz { new_size.saturating_add(RZ) } else { new_size };
        if has_rz {
            check(ptr, layout.size());
        }
        let p = System.realloc(ptr, pl, new_padded);
        if !p.is_null() {
            if has_rz {
                paint(p, new_size);
            }
            add(new_size as isize - layout.size() as isize);
            if new_size < layout.size() {
                let _ = SHRINKS.try_with(|a| a.set(a.get() + 1));
            }
            let _ = ALLOCS.try_with(|a| a.set(a.get() + 1));
        }
        p
    }
}

/// Live bytes allocated by the current thread minus bytes freed by it.
pub fn live() -> isize {
    LIVE.with(|l| l.get())
}

/// Resets the peak to the current live value and returns the live value (the baseline).
pub fn reset_peak() -> isize {
    let v = live();
    PEAK.with(|p| p.set(v));
    v
}

pub fn peak() -> isize {
    PEAK.with(|p| p.get())
}

pub fn alloc_calls() -> u64 {
    ALLOCS.with(|a| a.get())
}

pub fn shrink_events() -> u64 {
    SHRINKS.with(|a| a.get())
}

/// Number of freed/resized blocks of this thread whose tail red zone had been overwritten.
pub fn overruns() -> u64 {
    OVERRUNS.with(|a| a.get())
}
