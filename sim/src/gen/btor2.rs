//! Grammar-valid BTOR2 documents covering every node form the parser knows.

use super::{Doc, TokKind};
use crate::drive::PCfg;
use crate::rng::Rng;

const UNARY: [&str; 7] = ["not", "inc", "dec", "neg", "redand", "redor", "redxor"];
const BINARY: [&str; 40] = [
    "iff", "implies", "eq", "neq", "ugt", "sgt", "ugte", "sgte", "ult", "slt", "ulte", "slte",
    "and", "nand", "nor", "or", "xnor", "xor", "rol", "ror", "sll", "sra", "srl", "add", "mul",
    "udiv", "sdiv", "smod", "urem", "srem", "sub", "uaddo", "saddo", "sdivo", "umulo", "smulo",
    "usubo", "ssubo", "concat", "read",
];

fn id_text(rng: &mut Rng, next_id: &mut u64) -> String {
    let v = match rng.below(12) {
        0 => u64::MAX,
        1 => 12345678,  // exactly 8 digits
        2 => 123456789, // 9 digits
        3 => 1234567,
        _ => {
            *next_id += 1 + rng.below(3) as u64;
            *next_id
        }
    };
    v.to_string()
}

fn node_ref(rng: &mut Rng, d: &mut Doc, next_id: u64) {
    let v = if rng.chance(1, 10) {
        rng.next_u64().max(1)
    } else {
        1 + rng.next_u64() % next_id.max(1)
    };
    d.tok(TokKind::NodeId, v.to_string().as_bytes());
}

fn num(rng: &mut Rng, d: &mut Doc) {
    let v = match rng.below(5) {
        0 => 0,
        1 => u64::MAX,
        _ => rng.next_u64() >> rng.below(64),
    };
    d.tok(TokKind::Num, v.to_string().as_bytes());
}

pub fn gen(rng: &mut Rng, _cfg: &PCfg, size: usize) -> Doc {
    let long_pct = if size == 4 { 30 } else { 1 };
    let mut d = Doc::default();
    let n_lines = match size {
        0 => rng.below(4),
        1 | 4 => rng.below(12),
        3 => rng.range(2000, 3000),
        _ => rng.range(8, 50),
    };
    let mut next_id = 0u64;
    let blanks = rng.chance(1, 3);
    for li in 0..n_lines {
        if blanks && rng.chance(1, 5) {
            d.raw(if rng.chance(1, 2) { b"\n" } else { b"  \n" });
        }
        if blanks && rng.chance(1, 8) {
            d.raw(b" ");
        }
        if rng.chance(1, 8) {
            d.tok(TokKind::Keyword, b";");
            let texts: [&[u8]; 4] = [b"", b" a comment line", b";; 1 sort bitvec 1", b" \xff\xfe"];
            if let Some(t) = super::long_text(rng, size, long_pct) {
                d.tok(TokKind::Text, &t);
            } else {
                d.tok(TokKind::Text, *rng.pick(&texts));
            }
            d.raw(b"\n");
            d.item_done();
            continue;
        }
        let id = id_text(rng, &mut next_id);
        d.tok(TokKind::NodeId, id.as_bytes());
        d.raw(b" ");
        let form = rng.below(16);
        let kw = |d: &mut Doc, s: &str| d.tok(TokKind::Keyword, s.as_bytes());
        match form {
            0 => {
                kw(&mut d, "sort");
                d.raw(b" ");
                kw(&mut d, "bitvec");
                d.raw(b" ");
                let w = match rng.below(4) {
                    0 => 1,
                    1 => u64::MAX,
                    _ => 1 + rng.small(1 << 20) as u64,
                };
                d.tok(TokKind::NodeId, w.to_string().as_bytes());
            }
            1 => {
                kw(&mut d, "sort");
                d.raw(b" ");
                kw(&mut d, "array");
                d.raw(b" ");
                node_ref(rng, &mut d, next_id);
                d.raw(b" ");
                node_ref(rng, &mut d, next_id);
            }
            2 => {
                kw(&mut d, *rng.pick(&["init", "next"]));
                for _ in 0..3 {
                    d.raw(b" ");
                    node_ref(rng, &mut d, next_id);
                }
            }
            3 => {
                kw(&mut d, *rng.pick(&["bad", "constraint", "fair", "output"]));
                d.raw(b" ");
                node_ref(rng, &mut d, next_id);
            }
            4 => {
                kw(&mut d, "justice");
                d.raw(b" ");
                let n = 1 + rng.below(4);
                d.tok(TokKind::Num, n.to_string().as_bytes());
                for _ in 0..n {
                    d.raw(b" ");
                    node_ref(rng, &mut d, next_id);
                }
            }
            5 => {
                let (k, base, digits): (&str, u8, &[u8]) = match rng.below(3) {
                    0 => ("const", 2, b"01"),
                    1 => ("constd", 10, b"0123456789"),
                    _ => ("consth", 16, b"0123456789abcdefABCDEF"),
                };
                kw(&mut d, k);
                d.raw(b" ");
                node_ref(rng, &mut d, next_id);
                d.raw(b" ");
                let mut s: Vec<u8> = vec![];
                if base == 10 && rng.chance(1, 3) {
                    s.push(b'-');
                }
                for _ in 0..1 + rng.small(40) {
                    s.push(*rng.pick(digits));
                }
                d.tok(TokKind::Const(base), &s);
            }
            6 => {
                kw(&mut d, *rng.pick(&["ones", "one", "zero", "input", "state"]));
                d.raw(b" ");
                node_ref(rng, &mut d, next_id);
            }
            7 => {
                kw(&mut d, *rng.pick(&["uext", "sext"]));
                d.raw(b" ");
                node_ref(rng, &mut d, next_id);
                d.raw(b" ");
                node_ref(rng, &mut d, next_id);
                d.raw(b" ");
                num(rng, &mut d);
            }
            8 => {
                kw(&mut d, "slice");
                d.raw(b" ");
                node_ref(rng, &mut d, next_id);
                d.raw(b" ");
                node_ref(rng, &mut d, next_id);
                d.raw(b" ");
                num(rng, &mut d);
                d.raw(b" ");
                num(rng, &mut d);
            }
            9 => {
                kw(&mut d, *rng.pick(&UNARY));
                d.raw(b" ");
                node_ref(rng, &mut d, next_id);
                d.raw(b" ");
                node_ref(rng, &mut d, next_id);
            }
            10 => {
                kw(&mut d, *rng.pick(&["ite", "write"]));
                for _ in 0..4 {
                    d.raw(b" ");
                    node_ref(rng, &mut d, next_id);
                }
            }
            _ => {
                kw(&mut d, *rng.pick(&BINARY));
                for _ in 0..3 {
                    d.raw(b" ");
                    node_ref(rng, &mut d, next_id);
                }
            }
        }
        // optional symbol, optional comment
        let mut has_comment = false;
        match rng.below(6) {
            0 => {
                d.raw(b" ");
                if let Some(t) = super::long_text(rng, size, long_pct) {
                    let t: Vec<u8> = t.into_iter().map(|b| if b == b' ' { b'_' } else { b }).collect();
                    d.tok(TokKind::Name, &t);
                } else {
                    d.tok(
                        TokKind::Name,
                        *rng.pick(&[&b"sym"[..], b"a.b[3]", b"x\xc3\xa4", b"\x80\xff", b"s;t"]),
                    );
                }
            }
            1 => {
                d.raw(b" ");
                d.tok(TokKind::Name, b"named");
                d.raw(b" ");
                d.tok(TokKind::Keyword, b";");
                d.tok(TokKind::Text, *rng.pick(&[&b" trailing"[..], b"", b" x ; y"]));
                has_comment = true;
            }
            2 => {
                d.raw(b" ");
                d.tok(TokKind::Keyword, b";");
                if let Some(t) = super::long_text(rng, size, long_pct) {
                    d.tok(TokKind::Text, &t);
                } else {
                    d.tok(TokKind::Text, *rng.pick(&[&b" only comment"[..], b"", b"\xff"]));
                }
                has_comment = true;
            }
            _ => {}
        }
        let last = li + 1 == n_lines;
        if last && has_comment && rng.chance(1, 3) {
            // a trailing comment may be ended by end of input
            d.item_ends.push(usize::MAX);
        } else {
            d.raw(b"\n");
            d.item_done();
        }
    }
    if blanks && d.item_ends.last() != Some(&usize::MAX) && rng.chance(1, 3) {
        d.raw(b"\n \n");
    }
    let len = d.bytes.len();
    for e in d.item_ends.iter_mut() {
        if *e == usize::MAX {
            *e = len;
        }
    }
    d
}
