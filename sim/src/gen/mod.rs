//! Document generators: grammar-valid documents *with metadata* (token spans, item completion
//! offsets), byte/token mutators and arbitrary inputs.

pub mod aiger;
pub mod btor2;
pub mod dimacs;
pub mod satlog;

use crate::drive::{PCfg, PKind};
use crate::rng::Rng;

#[derive(Clone, Debug, PartialEq, Eq)]
pub enum TokKind {
    /// fixed keyword / punctuation that must be exactly this
    Keyword,
    /// DIMACS literal; |v| > limit is rejected at the token
    Lit { limit: i128 },
    /// terminating zero of a clause
    Zero,
    /// unsigned count with an upper limit enforced at the token (None: only the type's range)
    Count { limit: Option<u128>, what: &'static str },
    /// gcnf group `{n}`
    Group { limit: u128 },
    /// AIGER literal
    ALit { assigning: bool, max: u128 },
    /// AIGER latch reset value: 0, 1 or the latch's own literal `own`
    LatchInit { own: u128, max: u128 },
    /// AIGER symbol index (text right after the kind letter)
    SymIdx { limit: u128 },
    /// AIGER symbol name / BTOR2 symbol (free text)
    Name,
    /// BTOR2 node or sort id (positive u64)
    NodeId,
    /// BTOR2 unsigned number
    Num,
    /// BTOR2 constant digits (base 2, 10, 16)
    Const(u8),
    /// binary AIGER delta (7-bit groups); `max` = largest admissible value
    Delta { max: u128 },
    /// free text (comments); not a corruption target
    Text,
    /// the text of an AIGER comment section (everything after `c\n` up to the end of the file)
    AigComment,
}

#[derive(Clone, Debug)]
pub struct Tok {
    pub start: usize,
    pub len: usize,
    pub kind: TokKind,
}

#[derive(Clone, Debug, Default)]
pub struct Doc {
    pub bytes: Vec<u8>,
    pub toks: Vec<Tok>,
    /// for every item the parser hands out, the offset just past the last byte it needs
    pub item_ends: Vec<usize>,
    /// byte range of the binary and-gate section (binary AIGER): `\n` bytes in there are data
    pub binary: Option<(usize, usize)>,
}

impl Doc {
    pub fn tok(&mut self, kind: TokKind, text: &[u8]) {
        self.toks.push(Tok {
            start: self.bytes.len(),
            len: text.len(),
            kind,
        });
        self.bytes.extend_from_slice(text);
    }
    pub fn raw(&mut self, text: &[u8]) {
        self.bytes.extend_from_slice(text);
    }
    pub fn item_done(&mut self) {
        self.item_ends.push(self.bytes.len());
    }
    pub fn cuts(&self) -> Vec<usize> {
        let mut c: Vec<usize> = vec![];
        for t in &self.toks {
            c.push(t.start);
            c.push(t.start + t.len);
        }
        c
    }
    /// 1-based (line, column) of a byte offset, lines split at `\n`.
    pub fn line_col(&self, off: usize) -> (usize, usize) {
        line_col(&self.bytes, off)
    }
}

/// Size classes 3 ("huge") and 4 ("long tokens") may contain free text far longer than a chunk.
pub fn long_text(rng: &mut Rng, size: usize, pct: usize) -> Option<Vec<u8>> {
    if size < 3 || cfg!(miri) || rng.below(100) >= pct {
        return None;
    }
    let len = *rng.pick(&[4500usize, 17000, 40000, 70000]) + rng.below(100);
    Some((0..len).map(|_| *rng.pick(b"abcdefghij klmnop;0123456789-_")).collect())
}

pub fn line_col(bytes: &[u8], off: usize) -> (usize, usize) {
    let mut line = 1;
    let mut start = 0;
    for (i, &b) in bytes[..off.min(bytes.len())].iter().enumerate() {
        if b == b'\n' {
            line += 1;
            start = i + 1;
        }
    }
    (line, off - start + 1)
}

/// Grammar-valid document for the given parser configuration.
pub fn valid(rng: &mut Rng, cfg: &PCfg, size: usize) -> Doc {
    match cfg.kind {
        PKind::Cnf | PKind::Wcnf | PKind::Gcnf => dimacs::gen(rng, cfg, size),
        PKind::SatLog => satlog::gen(rng, cfg, size),
        PKind::Aag => aiger::gen_aag(rng, cfg, size),
        PKind::Aig => aiger::gen_aig(rng, cfg, size),
        PKind::Btor2 => btor2::gen(rng, cfg, size),
    }
}

const DICT: [&[u8]; 48] = [
    b"0",
    b"-0",
    b"-",
    b"1",
    b"-1",
    b"007",
    b"127",
    b"128",
    b"-128",
    b"-129",
    b"255",
    b"256",
    b"32767",
    b"32768",
    b"65535",
    b"65536",
    b"2147483647",
    b"2147483648",
    b"-2147483648",
    b"4294967295",
    b"4294967296",
    b"9223372036854775807",
    b"9223372036854775808",
    b"-9223372036854775808",
    b"18446744073709551615",
    b"18446744073709551616",
    b"99999999999999999999999999999999999999999",
    b"12345678",
    b"123456789",
    b"1234567",
    b"p cnf",
    b"p wcnf",
    b"p gcnf",
    b"aag",
    b"aig",
    b"c",
    b"c\n",
    b"{1}",
    b"{",
    b"}",
    b"s SATISFIABLE",
    b"v ",
    b"sort bitvec",
    b"constd",
    b"justice",
    b";",
    b"\xff\xfe",
    b"\xc3\xa4",
];

/// Mutates a document in place (1..4 edits).
pub fn mutate(rng: &mut Rng, doc: &mut Vec<u8>, toks: &[Tok]) {
    let n = 1 + rng.below(3);
    // rare heavy mutations: something much longer than a chunk / many repetitions of a line
    if !cfg!(miri) && rng.chance(1, 150) {
        let at = rng.below(doc.len() + 1);
        if rng.chance(1, 2) {
            // a long run of one kind of byte (a token, blank run or comment longer than any chunk)
            let b = *rng.pick(b"0123456789 \ta\n\r-");
            let len = *rng.pick(&[300usize, 5000, 17000, 40000, 70000]) + rng.below(64);
            let run: Vec<u8> = std::iter::repeat(b).take(len).collect();
            doc.splice(at..at, run);
        } else {
            // a line repeated thousands of times
            let s = doc[..at].iter().rposition(|&c| c == b'\n').map_or(0, |i| i + 1);
            let e = doc[at..].iter().position(|&c| c == b'\n').map_or(doc.len(), |i| at + i + 1);
            let line: Vec<u8> = doc[s..e].to_vec();
            if !line.is_empty() && line.len() < 200 {
                let times = *rng.pick(&[100usize, 1000, 5000]);
                let mut rep = Vec::with_capacity(line.len() * times);
                for _ in 0..times {
                    rep.extend_from_slice(&line);
                }
                doc.splice(s..s, rep);
            }
        }
    }
    for _ in 0..n {
        match rng.below(9) {
            0 if !doc.is_empty() => {
                let i = rng.below(doc.len());
                doc[i] ^= 1 << rng.below(8);
            }
            1 => {
                let i = rng.below(doc.len() + 1);
                // separators, digits, letters and the bytes just outside the digit / letter ranges
                // (`/`, `:`, `@`, `[`, backtick, `{`, and their high-bit twins)
                let b = *rng.pick(b" \t\r\n0123456789-cpvs{};aZ\x80\xff\x00/:@[`{\xaf\xba\xe0\xfb");
                doc.insert(i, b);
            }
            2 if !doc.is_empty() => {
                let i = rng.below(doc.len());
                doc.remove(i);
            }
            3 if !toks.is_empty() => {
                // token replacement from the dictionary (offsets may be stale after earlier edits:
                // clamp, it is only a mutation)
                let t = rng.pick(toks);
                let s = t.start.min(doc.len());
                let e = (t.start + t.len).min(doc.len());
                let rep = *rng.pick(&DICT);
                doc.splice(s..e, rep.iter().copied());
            }
            4 => {
                // duplicate or remove a line
                let lines: Vec<usize> = std::iter::once(0)
                    .chain(doc.iter().enumerate().filter(|(_, &b)| b == b'\n').map(|(i, _)| i + 1))
                    .collect();
                let li = rng.below(lines.len());
                let s = lines[li];
                let e = lines.get(li + 1).copied().unwrap_or(doc.len());
                if rng.chance(1, 2) {
                    let l: Vec<u8> = doc[s..e].to_vec();
                    doc.splice(s..s, l);
                } else {
                    doc.drain(s..e);
                }
            }
            5 if !doc.is_empty() => {
                let k = rng.below(doc.len() + 1);
                doc.truncate(k);
            }
            6 => {
                let i = rng.below(doc.len() + 1);
                let rep = *rng.pick(&DICT);
                doc.splice(i..i, rep.iter().copied());
            }
            7 if doc.len() > 2 => {
                // swap two adjacent bytes
                let i = rng.below(doc.len() - 1);
                doc.swap(i, i + 1);
            }
            _ => {
                // replace a newline by CRLF or the other way round / add trailing blanks
                if let Some(i) = doc.iter().position(|&b| b == b'\n') {
                    if rng.chance(1, 2) {
                        doc.insert(i, b'\r');
                    } else {
                        doc.insert(i, b' ');
                    }
                }
            }
        }
    }
}

/// Arbitrary bytes over a format-biased alphabet.
pub fn arbitrary(rng: &mut Rng, kind: PKind, len: usize) -> Vec<u8> {
    let alpha: &[u8] = match kind {
        PKind::Cnf | PKind::Wcnf | PKind::Gcnf => b"0123456789-  \t\r\n\n cp{}wgnf",
        PKind::SatLog => b"0123456789-  \n\nsvc SATISFIABLEUNKNOWN",
        PKind::Aag | PKind::Aig => b"0123456789  \n\naigilobcjf\x00\x7f\x80\xff",
        PKind::Btor2 => b"0123456789  \n\n;-abcdefghijklmnopqrstuvwxyz`{",
    };
    let mut out = Vec::with_capacity(len + 8);
    if rng.chance(1, 2) {
        // plausible start so that the parser gets past the first token
        out.extend_from_slice(match kind {
            PKind::Cnf => b"p cnf ",
            PKind::Wcnf => b"p wcnf ",
            PKind::Gcnf => b"p gcnf ",
            PKind::SatLog => b"s ",
            PKind::Aag => b"aag ",
            PKind::Aig => b"aig ",
            PKind::Btor2 => b"1 sort ",
        });
    }
    for _ in 0..len {
        if rng.chance(1, 40) {
            out.push(rng.next_u64() as u8);
        } else {
            out.push(*rng.pick(alpha));
        }
    }
    out
}
