//! Grammar-valid DIMACS CNF / WCNF / GCNF documents with token spans and item completion points.

use super::{Doc, TokKind};
use crate::drive::{PCfg, PKind};
use crate::rng::Rng;

struct Layout {
    crlf: bool,
    sloppy: bool,
    size: usize,
}

fn nl(d: &mut Doc, l: &Layout) {
    if l.crlf {
        d.raw(b"\r\n");
    } else {
        d.raw(b"\n");
    }
}

fn sep(rng: &mut Rng, d: &mut Doc, l: &Layout) {
    if l.sloppy && rng.chance(1, 3) {
        for _ in 0..1 + rng.below(3) {
            d.raw(if rng.chance(1, 3) { b"\t" } else { b" " });
        }
    } else {
        d.raw(b" ");
    }
}

fn num_text(rng: &mut Rng, v: i128, l: &Layout) -> Vec<u8> {
    let mut s = String::new();
    if v < 0 {
        s.push('-');
    }
    if l.sloppy && rng.chance(1, 12) {
        for _ in 0..1 + rng.below(9) {
            s.push('0');
        }
    }
    s.push_str(&v.unsigned_abs().to_string());
    s.into_bytes()
}

fn comment_line(rng: &mut Rng, d: &mut Doc, l: &Layout) {
    let texts: [&[u8]; 6] = [
        b"c",
        b"c a comment",
        b"c 1 2 0",
        b"c\tp cnf 3 4",
        b"c \xc3\xa4\xff",
        b"cxyz",
    ];
    if let Some(t) = super::long_text(rng, l.size, 2) {
        let mut line = b"c ".to_vec();
        line.extend(t);
        d.tok(TokKind::Text, &line);
    } else {
        d.tok(TokKind::Text, *rng.pick(&texts));
    }
    nl(d, l);
}

fn filler(rng: &mut Rng, d: &mut Doc, l: &Layout, density: usize) {
    // comment lines and blank lines (optionally with blanks in them)
    while rng.chance(density, 10) {
        if rng.chance(1, 2) {
            comment_line(rng, d, l);
        } else {
            if l.sloppy && rng.chance(1, 3) {
                d.raw(b"  \t");
            }
            nl(d, l);
        }
        if l.sloppy && rng.chance(1, 4) {
            // indentation of the following line
            d.raw(b" ");
        }
    }
}

/// A random value in 1..=max, biased to the extremes.
fn magnitude(rng: &mut Rng, max: i128) -> i128 {
    match rng.below(6) {
        0 => max,
        1 => 1,
        2 => (max - 1).max(1),
        _ => {
            let m = max.min(u64::MAX as i128) as u64;
            1 + (rng.next_u64() % m) as i128 % max
        }
    }
}

pub fn gen(rng: &mut Rng, cfg: &PCfg, size: usize) -> Doc {
    let mut d = Doc::default();
    let l = Layout {
        crlf: rng.chance(1, 5),
        sloppy: rng.chance(1, 2),
        size,
    };
    let max = cfg.max_dimacs();
    let n_clauses = match size {
        0 => rng.below(4),
        1 | 4 => rng.below(12),
        // rare "huge" documents: beyond two default chunks, so that realign runs with the
        // shipped chunk size too
        3 => rng.range(3000, 5000),
        _ => rng.range(8, 60),
    };
    let has_header = rng.chance(7, 10);
    let density = if size == 4 { 3 } else { *rng.pick(&[0usize, 0, 1, 3]) };
    // declared counts (0 = unspecified)
    let var_count: i128 = if rng.chance(1, 5) {
        0
    } else {
        match rng.below(4) {
            0 => max,
            1 => rng.range(1, 9) as i128,
            _ => magnitude(rng, max.min(100_000)),
        }
    };
    let lit_limit = if has_header && !cfg.flag && var_count != 0 {
        var_count
    } else {
        max
    };
    let clause_count = if rng.chance(1, 4) { 0 } else { n_clauses };
    let group_count: u128 = if rng.chance(1, 4) { 0 } else { 1 + rng.small(50) as u128 };
    let group_limit: u128 = if has_header && !cfg.flag && group_count != 0 {
        group_count
    } else {
        usize::MAX as u128
    };

    if l.sloppy && rng.chance(1, 4) {
        d.raw(b" \t");
    }
    filler(rng, &mut d, &l, density);
    if has_header {
        d.tok(TokKind::Keyword, b"p");
        sep(rng, &mut d, &l);
        d.tok(
            TokKind::Keyword,
            match cfg.kind {
                PKind::Cnf => b"cnf",
                PKind::Wcnf => b"wcnf",
                _ => b"gcnf",
            },
        );
        sep(rng, &mut d, &l);
        let t = num_text(rng, var_count, &l);
        d.tok(
            TokKind::Count {
                limit: Some(max as u128),
                what: "variable count",
            },
            &t,
        );
        sep(rng, &mut d, &l);
        let t = num_text(rng, clause_count as i128, &l);
        d.tok(
            TokKind::Count {
                limit: None,
                what: "clause count",
            },
            &t,
        );
        match cfg.kind {
            PKind::Wcnf => {
                sep(rng, &mut d, &l);
                let top = rng.next_u64() >> rng.below(64);
                let t = num_text(rng, top as i128, &l);
                d.tok(
                    TokKind::Count {
                        limit: None,
                        what: "top weight",
                    },
                    &t,
                );
            }
            PKind::Gcnf => {
                sep(rng, &mut d, &l);
                let t = num_text(rng, group_count as i128, &l);
                d.tok(
                    TokKind::Count {
                        limit: None,
                        what: "group count",
                    },
                    &t,
                );
            }
            _ => {}
        }
        if l.sloppy && rng.chance(1, 3) {
            d.raw(b" ");
        }
        nl(&mut d, &l);
        d.item_done();
    }

    for ci in 0..n_clauses {
        filler(rng, &mut d, &l, density);
        // clause prefix
        match cfg.kind {
            PKind::Wcnf => {
                let w = match rng.below(4) {
                    0 => 0,
                    1 => u64::MAX,
                    _ => rng.next_u64() >> rng.below(64),
                };
                let t = num_text(rng, w as i128, &l);
                d.tok(
                    TokKind::Count {
                        limit: None,
                        what: "clause weight",
                    },
                    &t,
                );
                if l.sloppy && rng.chance(1, 10) {
                    nl(&mut d, &l); // weight and literals on separate lines
                    filler(rng, &mut d, &l, density.min(2));
                } else {
                    sep(rng, &mut d, &l);
                }
            }
            PKind::Gcnf => {
                let g = if rng.chance(1, 3) {
                    group_limit.min(u64::MAX as u128)
                } else {
                    (rng.next_u64() as u128) % (group_limit.min(1000) + 1)
                };
                d.tok(
                    TokKind::Group { limit: group_limit },
                    format!("{{{g}}}").as_bytes(),
                );
                if l.sloppy && rng.chance(1, 10) {
                    nl(&mut d, &l);
                    filler(rng, &mut d, &l, density.min(2));
                } else {
                    sep(rng, &mut d, &l);
                }
            }
            _ => {}
        }
        let nlits = match rng.below(8) {
            0 => 0,
            1 => rng.range(8, 20),
            _ => rng.range(1, 5),
        };
        for _ in 0..nlits {
            let m = magnitude(rng, lit_limit);
            let v = if rng.chance(1, 2) { m } else { -m };
            let t = num_text(rng, v, &l);
            d.tok(TokKind::Lit { limit: lit_limit }, &t);
            if l.sloppy && rng.chance(1, 8) {
                // clause continues on the next line
                if rng.chance(1, 2) {
                    d.raw(b" ");
                }
                nl(&mut d, &l);
                filler(rng, &mut d, &l, density.min(2));
            } else {
                sep(rng, &mut d, &l);
            }
        }
        d.tok(
            TokKind::Zero,
            if l.sloppy && rng.chance(1, 10) {
                b"-0"
            } else if l.sloppy && rng.chance(1, 10) {
                b"00"
            } else {
                b"0"
            },
        );
        if l.sloppy && rng.chance(1, 4) {
            d.raw(b" \t");
        }
        let last = ci + 1 == n_clauses;
        if last && rng.chance(1, 4) {
            // no final newline: the clause is completed by end of input
            d.item_ends.push(usize::MAX);
        } else {
            nl(&mut d, &l);
            d.item_done();
        }
    }
    if d.item_ends.last() != Some(&usize::MAX) {
        filler(rng, &mut d, &l, density);
    }
    let len = d.bytes.len();
    for e in d.item_ends.iter_mut() {
        if *e == usize::MAX {
            *e = len;
        }
    }
    d
}
