//! Grammar-valid SAT solver logs.

use super::{Doc, TokKind};
use crate::drive::PCfg;
use crate::rng::Rng;

pub fn gen(rng: &mut Rng, cfg: &PCfg, size: usize) -> Doc {
    let mut d = Doc::default();
    let max = cfg.max_dimacs();
    let n_lines = match size {
        0 => rng.below(4),
        1 | 4 => rng.below(10),
        3 => rng.range(3000, 4000),
        _ => rng.range(6, 40),
    };
    let mut have_s = false;
    let mut v_started = false;
    let mut v_finished = false;
    let want_values = rng.chance(2, 3);
    let noise = |rng: &mut Rng, d: &mut Doc| {
        if rng.chance(1, 2) {
            let texts: [&[u8]; 4] = [b"c ", b"c solving", b"c  v 1 2 0", b"c s SATISFIABLE"];
            if let Some(t) = super::long_text(rng, size, 5) {
                let mut line = b"c ".to_vec();
                line.extend(t);
                d.tok(TokKind::Text, &line);
            } else {
                d.tok(TokKind::Text, *rng.pick(&texts));
            }
            d.raw(b"\n");
        } else if cfg.flag {
            let texts: [&[u8]; 5] = [b"", b"random line", b"c", b"vx 1", b"solver v1.0 \xff"];
            d.tok(TokKind::Text, *rng.pick(&texts));
            d.raw(b"\n");
        }
    };
    for _ in 0..n_lines {
        match rng.below(4) {
            0 | 1 => noise(rng, &mut d),
            2 if !have_s => {
                have_s = true;
                d.tok(TokKind::Keyword, b"s");
                d.raw(b" ");
                d.tok(
                    TokKind::Keyword,
                    *rng.pick(&[&b"SATISFIABLE"[..], b"UNSATISFIABLE", b"UNKNOWN"]),
                );
                d.raw(b"\n");
            }
            _ if want_values && !v_finished => {
                v_started = true;
                d.tok(TokKind::Keyword, b"v");
                d.raw(b" ");
                if rng.chance(1, 6) {
                    d.raw(b"  ");
                }
                let n = rng.below(6);
                for _ in 0..n {
                    let m = 1 + (rng.next_u64() as i128 & i64::MAX as i128) % max;
                    let m = if rng.chance(1, 6) { max } else { m };
                    let v = if rng.chance(1, 2) { m } else { -m };
                    d.tok(TokKind::Lit { limit: max }, v.to_string().as_bytes());
                    d.raw(if rng.chance(1, 8) { b"  " } else { b" " });
                }
                if rng.chance(1, 3) {
                    v_finished = true;
                    d.tok(TokKind::Zero, b"0");
                    if rng.chance(1, 4) {
                        d.raw(b" ");
                    }
                } else if n == 0 {
                    // "v " with nothing: still a valid (empty) value line
                }
                d.raw(b"\n");
            }
            _ => noise(rng, &mut d),
        }
    }
    if v_started && !v_finished {
        d.tok(TokKind::Keyword, b"v");
        d.raw(b" ");
        d.tok(TokKind::Zero, b"0");
        if rng.chance(1, 3) {
            // no trailing newline
        } else {
            d.raw(b"\n");
        }
    }
    d.item_ends.push(d.bytes.len());
    d
}
