//! Grammar-valid ASCII and binary AIGER documents (as far as the parsers check: counts, literal
//! ranges, even/non-zero defining literals, delta codes), with token spans and item completion
//! points. The circuits need not be meaningful.

use super::{Doc, TokKind};
use crate::drive::PCfg;
use crate::rng::Rng;

struct Counts {
    m: usize,
    i: usize,
    l: usize,
    o: usize,
    a: usize,
    b: usize,
    c: usize,
    j: usize,
    f: usize,
}

fn counts(rng: &mut Rng, cfg: &PCfg, size: usize) -> Counts {
    let max_m = ((cfg.max_code() - 1) / 2).min(1 << 40) as usize;
    let cap = match size {
        0 => 2,
        1 | 4 => 5,
        3 => 2500,
        _ => 14,
    };
    let mut i = rng.below(cap + 1);
    let mut l = rng.below(cap / 2 + 1);
    let mut a = rng.below(cap + 1);
    let o = rng.below(cap / 2 + 2);
    let ext = rng.chance(1, 2);
    let (mut b, mut c, mut j, mut f) = if ext {
        (rng.below(3), rng.below(3), rng.below(3), rng.below(3))
    } else {
        (0, 0, 0, 0)
    };
    // the parser limits I <= M, L <= M-I, A,B,C,J,F <= M-I-L
    while i + l + a > max_m {
        if a > 0 {
            a -= 1
        } else if l > 0 {
            l -= 1
        } else {
            i -= 1
        }
    }
    let slack_max = max_m - (i + l + a);
    let need = b.max(c).max(j).max(f).saturating_sub(a);
    let slack = if need > slack_max {
        b = b.min(a + slack_max);
        c = c.min(a + slack_max);
        j = j.min(a + slack_max);
        f = f.min(a + slack_max);
        slack_max
    } else if rng.chance(1, 3) {
        need + rng.below((slack_max - need).min(5) + 1)
    } else {
        need
    };
    Counts {
        m: i + l + a + slack,
        i,
        l,
        o,
        a,
        b,
        c,
        j,
        f,
    }
}

fn header(rng: &mut Rng, d: &mut Doc, magic: &[u8], k: &Counts, max_m: u128) {
    d.tok(TokKind::Keyword, magic);
    let fields = [k.m, k.i, k.l, k.o, k.a, k.b, k.c, k.j, k.f];
    // trailing zero fields beyond the fifth may be omitted (or kept)
    let mut n = 9;
    while n > 5 && fields[n - 1] == 0 && rng.chance(3, 4) {
        n -= 1;
    }
    let rest = (k.m - k.i - k.l) as u128;
    for (idx, &v) in fields.iter().enumerate().take(n) {
        d.raw(b" ");
        let limit = match idx {
            0 => Some(max_m),
            1 => Some(k.m as u128),
            2 => Some((k.m - k.i) as u128),
            3 => None,
            _ => Some(rest),
        };
        d.tok(
            TokKind::Count {
                limit,
                what: "header field",
            },
            v.to_string().as_bytes(),
        );
    }
    d.raw(b"\n");
    d.item_done();
}

fn any_lit(rng: &mut Rng, max_lit: usize) -> usize {
    match rng.below(5) {
        0 => 0,
        1 => 1,
        2 => max_lit,
        _ => rng.below(max_lit + 1),
    }
}

fn lit_line(rng: &mut Rng, d: &mut Doc, max_lit: usize) {
    let v = any_lit(rng, max_lit);
    d.tok(
        TokKind::ALit {
            assigning: false,
            max: max_lit as u128,
        },
        v.to_string().as_bytes(),
    );
    d.raw(b"\n");
    d.item_done();
}

fn tail_sections(rng: &mut Rng, d: &mut Doc, k: &Counts, max_lit: usize) {
    for _ in 0..k.o {
        lit_line(rng, d, max_lit);
    }
    for _ in 0..k.b {
        lit_line(rng, d, max_lit);
    }
    for _ in 0..k.c {
        lit_line(rng, d, max_lit);
    }
    let mut total = 0;
    for _ in 0..k.j {
        let n = rng.below(3);
        total += n;
        d.tok(
            TokKind::Count {
                limit: None,
                what: "justice size",
            },
            n.to_string().as_bytes(),
        );
        d.raw(b"\n");
        d.item_done();
    }
    for _ in 0..total {
        lit_line(rng, d, max_lit);
    }
    for _ in 0..k.f {
        lit_line(rng, d, max_lit);
    }
}

const NAMES: [&[u8]; 7] = [
    b"x",
    b"clk",
    b"a name with spaces",
    b"",
    b"\xc3\xa4\xe2\x82\xac",
    b"c",
    b"0 1 2",
];

fn symbols_and_comment(rng: &mut Rng, d: &mut Doc, k: &Counts, size: usize) {
    let mut kinds: Vec<(u8, usize)> = vec![];
    if k.i > 0 {
        kinds.push((b'i', k.i - 1));
    }
    if k.l > 0 {
        kinds.push((b'l', k.l - 1));
    }
    if k.o > 0 {
        kinds.push((b'o', k.o - 1));
    }
    for (ch, n) in [(b'b', k.b), (b'c', k.c), (b'j', k.j), (b'f', k.f)] {
        if n > 0 {
            kinds.push((ch, n - 1));
        }
    }
    if !kinds.is_empty() {
        let n = rng.below(4);
        for _ in 0..n {
            let (ch, lim) = *rng.pick(&kinds);
            d.tok(TokKind::Keyword, &[ch]);
            let idx = rng.below(lim + 1);
            d.tok(
                TokKind::SymIdx { limit: lim as u128 },
                idx.to_string().as_bytes(),
            );
            d.raw(b" ");
            if let Some(t) = super::long_text(rng, size, 10) {
                d.tok(TokKind::Name, &t);
            } else {
                d.tok(TokKind::Name, *rng.pick(&NAMES));
            }
            d.raw(b"\n");
            d.item_done();
        }
    }
    if rng.chance(1, 2) {
        d.tok(TokKind::Keyword, b"c");
        d.raw(b"\n");
        let texts: [&[u8]; 5] = [
            b"",
            b"a comment\n",
            b"two\nlines\n",
            b"\n",
            b"\xc3\xa4 utf8 \xe2\x82\xac\nc\ni0 x\n",
        ];
        if size >= 3 && !cfg!(miri) && rng.chance(1, 2) {
            // a big comment section: thousands of lines of varying length, some very long
            let mut text: Vec<u8> = vec![];
            let nlines = *rng.pick(&[300usize, 2000, 6000]);
            for _ in 0..nlines {
                if let Some(t) = super::long_text(rng, size, 1) {
                    text.extend(t);
                } else {
                    let n = rng.below(40);
                    text.extend((0..n).map(|_| *rng.pick(b"abcdefgh ijk=0123")));
                }
                text.push(b'\n');
            }
            d.tok(TokKind::AigComment, &text);
        } else {
            d.tok(TokKind::AigComment, *rng.pick(&texts));
        }
    }
}

pub fn gen_aag(rng: &mut Rng, cfg: &PCfg, size: usize) -> Doc {
    let mut d = Doc::default();
    let k = counts(rng, cfg, size);
    let max_m = (cfg.max_code() - 1) / 2;
    let max_lit = 2 * k.m + 1;
    header(rng, &mut d, b"aag", &k, max_m);
    let def_lit = |rng: &mut Rng| -> usize {
        // even, non-zero, <= 2M (needs M >= 1, guaranteed when any defining literal exists)
        2 * (1 + rng.below(k.m))
    };
    for _ in 0..k.i {
        let v = def_lit(rng);
        d.tok(
            TokKind::ALit {
                assigning: true,
                max: max_lit as u128,
            },
            v.to_string().as_bytes(),
        );
        d.raw(b"\n");
        d.item_done();
    }
    for _ in 0..k.l {
        let v = def_lit(rng);
        d.tok(
            TokKind::ALit {
                assigning: true,
                max: max_lit as u128,
            },
            v.to_string().as_bytes(),
        );
        d.raw(b" ");
        let nx = any_lit(rng, max_lit);
        d.tok(
            TokKind::ALit {
                assigning: false,
                max: max_lit as u128,
            },
            nx.to_string().as_bytes(),
        );
        match rng.below(4) {
            0 => {}
            1 => {
                d.raw(b" ");
                d.tok(TokKind::LatchInit { own: v as u128, max: max_lit as u128 }, b"0");
            }
            2 => {
                d.raw(b" ");
                d.tok(TokKind::LatchInit { own: v as u128, max: max_lit as u128 }, b"1");
            }
            _ => {
                d.raw(b" ");
                d.tok(TokKind::LatchInit { own: v as u128, max: max_lit as u128 }, v.to_string().as_bytes());
            }
        }
        d.raw(b"\n");
        d.item_done();
    }
    tail_sections_before_ands(rng, &mut d, &k, max_lit);
    for _ in 0..k.a {
        let v = def_lit(rng);
        d.tok(
            TokKind::ALit {
                assigning: true,
                max: max_lit as u128,
            },
            v.to_string().as_bytes(),
        );
        for _ in 0..2 {
            d.raw(b" ");
            let x = any_lit(rng, max_lit);
            d.tok(
                TokKind::ALit {
                    assigning: false,
                    max: max_lit as u128,
                },
                x.to_string().as_bytes(),
            );
        }
        d.raw(b"\n");
        d.item_done();
    }
    symbols_and_comment(rng, &mut d, &k, size);
    d
}

fn tail_sections_before_ands(rng: &mut Rng, d: &mut Doc, k: &Counts, max_lit: usize) {
    tail_sections(rng, d, k, max_lit)
}

fn varint(mut v: usize) -> Vec<u8> {
    let mut out = vec![];
    loop {
        let b = (v & 0x7f) as u8;
        v >>= 7;
        if v == 0 {
            out.push(b);
            break;
        }
        out.push(b | 0x80);
    }
    out
}

pub fn gen_aig(rng: &mut Rng, cfg: &PCfg, size: usize) -> Doc {
    let mut d = Doc::default();
    let mut k = counts(rng, cfg, size);
    if rng.chance(1, 2) {
        // inputs are not listed in the binary format, so many of them cost nothing; they make the
        // codes large and the delta codes multi-byte
        let max_m = ((cfg.max_code() - 1) / 2).min(1 << 40) as usize;
        let room = max_m.saturating_sub(k.m);
        let bits = 4 + rng.below(20);
        let extra = rng.small(room.min(1usize << bits));
        k.i += extra;
        k.m += extra;
    }
    if rng.chance(2, 3) {
        // canonical binary files have M = I + L + A; keep the slack only if B/C/J/F need it
        let need = k.b.max(k.c).max(k.j).max(k.f).saturating_sub(k.a);
        k.m = k.i + k.l + k.a + need;
    }
    let max_m = (cfg.max_code() - 1) / 2;
    let max_lit = 2 * k.m + 1;
    header(rng, &mut d, b"aig", &k, max_m);
    let mut code = 2 * (k.i + 1);
    for _ in 0..k.l {
        let nx = any_lit(rng, max_lit);
        d.tok(
            TokKind::ALit {
                assigning: false,
                max: max_lit as u128,
            },
            nx.to_string().as_bytes(),
        );
        match rng.below(4) {
            0 => {}
            1 => {
                d.raw(b" ");
                d.tok(TokKind::LatchInit { own: code as u128, max: max_lit as u128 }, b"0");
            }
            2 => {
                d.raw(b" ");
                d.tok(TokKind::LatchInit { own: code as u128, max: max_lit as u128 }, b"1");
            }
            _ => {
                d.raw(b" ");
                d.tok(TokKind::LatchInit { own: code as u128, max: max_lit as u128 }, code.to_string().as_bytes());
            }
        }
        d.raw(b"\n");
        d.item_done();
        code += 2;
    }
    tail_sections(rng, &mut d, &k, max_lit);
    let bin_start = d.bytes.len();
    for _ in 0..k.a {
        let d0 = match rng.below(5) {
            0 => 0,
            1 => code,
            2 => 10.min(code), // 0x0a: a data byte that looks like a newline
            3 => rng.below(code.min(300) + 1),
            _ => rng.below(code + 1),
        };
        let in0 = code - d0;
        let d1 = match rng.below(4) {
            0 => 0,
            1 => in0,
            2 => 10.min(in0),
            _ => rng.below(in0 + 1),
        };
        d.tok(TokKind::Delta { max: code as u128 }, &varint(d0));
        d.tok(TokKind::Delta { max: in0 as u128 }, &varint(d1));
        d.item_done();
        code += 2;
    }
    d.binary = Some((bin_start, d.bytes.len()));
    symbols_and_comment(rng, &mut d, &k, size);
    d
}
