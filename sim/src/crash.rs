//! Caught panics ("crash of one call"): silent hook + thread-local capture of (file, line, message).

use std::cell::RefCell;
use std::panic::{self, AssertUnwindSafe};
use std::sync::Once;

#[derive(Clone, Debug, PartialEq, Eq)]
pub struct PanicInfo {
    pub file: String,
    pub line: u32,
    pub msg: String,
}

impl PanicInfo {
    pub fn short(&self) -> String {
        format!("{}:{}: {}", self.file, self.line, self.msg)
    }
}

thread_local! {
    static LAST: RefCell<Option<PanicInfo>> = const { RefCell::new(None) };
}

static INSTALL: Once = Once::new();

pub fn install_hook() {
    INSTALL.call_once(|| {
        let verbose = std::env::var_os("VERIF_PANIC_VERBOSE").is_some();
        let prev = panic::take_hook();
        panic::set_hook(Box::new(move |info| {
            let (file, line) = info
                .location()
                .map(|l| (l.file().to_string(), l.line()))
                .unwrap_or_default();
            let msg = if let Some(s) = info.payload().downcast_ref::<&str>() {
                s.to_string()
            } else if let Some(s) = info.payload().downcast_ref::<String>() {
                s.clone()
            } else {
                "<non-string panic payload>".to_string()
            };
            if verbose {
                prev(info);
            }
            // The standard library's debug checks of unsafe preconditions (`get_unchecked` out of
            // range, ...) abort the process right after this hook. If the offending call sits in
            // the code under test, leave a marker for the orchestrator: that abort is a finding.
            if msg.starts_with("unsafe precondition(s) violated") && !file.starts_with("src/") {
                if let Some(t) = std::env::var_os("VERIF_TRACE_FILE") {
                    let mut path = t;
                    path.push(".ub");
                    let first = msg.lines().next().unwrap_or("");
                    let _ = std::fs::write(&path, format!("{file}:{line}: {first}"));
                }
            }
            let _ = LAST.try_with(|l| {
                *l.borrow_mut() = Some(PanicInfo { file, line, msg });
            });
        }));
    });
}

/// Runs `f`, catching a panic. Returns `Err(info)` if it panicked.
pub fn catch<T>(f: impl FnOnce() -> T) -> Result<T, PanicInfo> {
    LAST.with(|l| *l.borrow_mut() = None);
    match panic::catch_unwind(AssertUnwindSafe(f)) {
        Ok(v) => Ok(v),
        Err(_) => {
            let info = LAST.with(|l| l.borrow_mut().take()).unwrap_or(PanicInfo {
                file: String::new(),
                line: 0,
                msg: "<panic without captured info>".into(),
            });
            // A panic raised by the simulator's own code (other than the deliberately simulated
            // ones) is a harness bug, never a verdict about flussab.
            if info.file.starts_with("src/") && !info.msg.starts_with("simulated panic") {
                eprintln!("harness error: simulator panicked at {}", info.short());
                std::process::exit(2);
            }
            Err(info)
        }
    }
}
