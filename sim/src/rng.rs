//! One integer decides everything: SplitMix64 seeding + xoshiro256**.
//!
//! A run's stream depends only on (VERIF_SEED, property tag, run index) -- never on the worker
//! thread that happens to execute it.

#[derive(Clone)]
pub struct Rng {
    s: [u64; 4],
}

#[inline]
fn splitmix(state: &mut u64) -> u64 {
    *state = state.wrapping_add(0x9e37_79b9_7f4a_7c15);
    let mut z = *state;
    z = (z ^ (z >> 30)).wrapping_mul(0xbf58_476d_1ce4_e5b9);
    z = (z ^ (z >> 27)).wrapping_mul(0x94d0_49bb_1331_11eb);
    z ^ (z >> 31)
}

/// Mixes the base seed, a property tag and a run index into one stream seed.
/// 2^40 where `usize` has 64 bits, `usize::MAX / 2` on 32-bit targets (Miri cross-target runs).
pub const TWO_POW_40: usize = {
    let v = 1u64 << 40;
    let m = (usize::MAX / 2) as u64;
    (if v < m { v } else { m }) as usize
};

pub fn mix(seed: u64, tag: &str, run: u64) -> u64 {
    let mut h = seed ^ 0x5851_f42d_4c95_7f2d;
    for &b in tag.as_bytes() {
        h = (h ^ b as u64).wrapping_mul(0x0000_0100_0000_01b3);
    }
    let mut st = h ^ run.wrapping_mul(0xd6e8_feb8_6659_fd93);
    let a = splitmix(&mut st);
    let b = splitmix(&mut st);
    a ^ b.rotate_left(17)
}

impl Rng {
    pub fn new(seed: u64) -> Self {
        let mut st = seed;
        let s = [
            splitmix(&mut st),
            splitmix(&mut st),
            splitmix(&mut st),
            splitmix(&mut st),
        ];
        Rng { s }
    }

    #[inline]
    pub fn next_u64(&mut self) -> u64 {
        let result = self.s[1].wrapping_mul(5).rotate_left(7).wrapping_mul(9);
        let t = self.s[1] << 17;
        self.s[2] ^= self.s[0];
        self.s[3] ^= self.s[1];
        self.s[1] ^= self.s[2];
        self.s[0] ^= self.s[3];
        self.s[2] ^= t;
        self.s[3] = self.s[3].rotate_left(45);
        result
    }

    /// Uniform in `0..n` (n > 0).
    #[inline]
    pub fn below(&mut self, n: usize) -> usize {
        debug_assert!(n > 0);
        ((self.next_u64() as u128 * n as u128) >> 64) as usize
    }

    /// Uniform in `lo..=hi`.
    #[inline]
    pub fn range(&mut self, lo: usize, hi: usize) -> usize {
        debug_assert!(lo <= hi);
        if hi - lo == usize::MAX {
            return self.next_u64() as usize;
        }
        lo + self.below(hi - lo + 1)
    }

    /// True with probability num/den.
    #[inline]
    pub fn chance(&mut self, num: usize, den: usize) -> bool {
        self.below(den) < num
    }

    #[inline]
    pub fn pick<'a, T>(&mut self, xs: &'a [T]) -> &'a T {
        &xs[self.below(xs.len())]
    }

    /// Picks an index according to integer weights.
    pub fn weighted(&mut self, weights: &[usize]) -> usize {
        let total: usize = weights.iter().sum();
        let mut x = self.below(total);
        for (i, &w) in weights.iter().enumerate() {
            if x < w {
                return i;
            }
            x -= w;
        }
        weights.len() - 1
    }

    /// Small numbers most of the time, occasionally up to `max` (geometric-ish).
    pub fn small(&mut self, max: usize) -> usize {
        if max == 0 {
            return 0;
        }
        let bits = self.below(usize::BITS as usize - max.leading_zeros() as usize + 1);
        let cap = if bits >= usize::BITS as usize {
            usize::MAX
        } else {
            (1usize << bits).saturating_sub(1)
        };
        self.range(0, cap.min(max))
    }

    pub fn bytes(&mut self, n: usize) -> Vec<u8> {
        (0..n).map(|_| self.next_u64() as u8).collect()
    }
}

/// FNV-1a, used for trace hashes (never for randomness).
#[derive(Clone, Copy)]
pub struct Fnv(pub u64);

impl Default for Fnv {
    fn default() -> Self {
        Fnv(0xcbf2_9ce4_8422_2325)
    }
}

impl Fnv {
    #[inline]
    pub fn byte(&mut self, b: u8) {
        self.0 = (self.0 ^ b as u64).wrapping_mul(0x0000_0100_0000_01b3);
    }
    #[inline]
    pub fn u64(&mut self, v: u64) {
        for b in v.to_le_bytes() {
            self.byte(b);
        }
    }
    #[inline]
    pub fn bytes(&mut self, bs: &[u8]) {
        for &b in bs {
            self.byte(b);
        }
        self.u64(bs.len() as u64);
    }
    #[inline]
    pub fn str(&mut self, s: &str) {
        self.bytes(s.as_bytes());
    }
}
