//! `SimSource`: the simulated byte source behind the `Read` seam.
//!
//! A source is fully described by its data and an explicit *plan* (so a replay file does not
//! depend on generator code). Every `read()` call is logged; counters count what *fired*.

use std::cell::RefCell;
use std::io::{self, ErrorKind, Read};
use std::rc::Rc;

use crate::rng::{Fnv, Rng};

/// Raw OS error codes injected as terminal failures (Linux): EIO, ENOSPC, EACCES, EPIPE,
/// ECONNRESET, ETIMEDOUT, EAGAIN.
pub const OS_CODES: [i32; 7] = [5, 28, 13, 32, 104, 110, 11];

/// Negative "OS codes" select an error whose payload is one of the library's OWN error types (a
/// source that is itself built on a flussab parser and passes its error on inside an `io::Error`):
/// -1 flussab-cnf, -2 flussab-aiger, -3 flussab-btor2 parse error (a syntax error), -4 a plain
/// `flussab::text::SyntaxError`.
pub const LIB_PAYLOADS: [i32; 4] = [-1, -2, -3, -4];
/// Number of fault selectors understood by `fault_error` (7 kinds + 7 OS codes + 4 library payloads).
pub const FAULT_SELECTORS: usize = 18;

fn lib_syntax_error() -> flussab::text::SyntaxError {
    flussab::text::SyntaxError {
        location: flussab::text::LineColumn { line: 4, column: 7 },
        msg: "expected literal or terminating zero, found \"x\" (error of an upstream parser)".into(),
    }
}

/// The error a source fails with for a (possibly negative) code.
pub fn os_or_lib_error(code: i32) -> io::Error {
    match code {
        -1 => io::Error::new(ErrorKind::InvalidData, *flussab_cnf::ParseError::from(lib_syntax_error())),
        -2 => io::Error::new(ErrorKind::InvalidData, *flussab_aiger::ParseError::from(lib_syntax_error())),
        -3 => io::Error::new(ErrorKind::InvalidData, *flussab_btor2::ParseError::from(lib_syntax_error())),
        -4 => io::Error::new(ErrorKind::InvalidData, lib_syntax_error()),
        c => io::Error::from_raw_os_error(c),
    }
}

/// Which library payload an error (still) carries: the code of `LIB_PAYLOADS`.
pub fn lib_payload_of(e: &io::Error) -> Option<i32> {
    let r = e.get_ref()?;
    if r.downcast_ref::<flussab_cnf::InnerParseError>().is_some() {
        Some(-1)
    } else if r.downcast_ref::<flussab_aiger::InnerParseError>().is_some() {
        Some(-2)
    } else if r.downcast_ref::<flussab_btor2::InnerParseError>().is_some() {
        Some(-3)
    } else if r.downcast_ref::<flussab::text::SyntaxError>().is_some() {
        Some(-4)
    } else {
        None
    }
}

/// Fault selector -> (kind, raw OS code or library payload code).
pub fn fault_error(idx: usize) -> (ErrorKind, Option<i32>) {
    let idx = idx % FAULT_SELECTORS;
    if idx >= ERR_KINDS.len() + OS_CODES.len() {
        return (ErrorKind::InvalidData, Some(LIB_PAYLOADS[idx - ERR_KINDS.len() - OS_CODES.len()]));
    }
    if idx < ERR_KINDS.len() {
        (ERR_KINDS[idx], None)
    } else {
        let code = OS_CODES[idx - ERR_KINDS.len()];
        (io::Error::from_raw_os_error(code).kind(), Some(code))
    }
}

/// Payload of every simulated (non-OS) source failure: a typed error, so that "that I/O error"
/// can be told from a rebuilt one with the same kind and text.
#[derive(Debug)]
pub struct SimFailure {
    pub offset: usize,
}

impl std::fmt::Display for SimFailure {
    fn fmt(&self, f: &mut std::fmt::Formatter<'_>) -> std::fmt::Result {
        write!(f, "simulated source failure at offset {}", self.offset)
    }
}

impl std::error::Error for SimFailure {}

/// The offset carried by a [`SimFailure`] payload, if the error (still) has one.
pub fn payload_of(e: &io::Error) -> Option<usize> {
    e.get_ref().and_then(|r| r.downcast_ref::<SimFailure>()).map(|p| p.offset)
}

pub const ERR_KINDS: [ErrorKind; 7] = [
    ErrorKind::Other,
    ErrorKind::BrokenPipe,
    ErrorKind::ConnectionReset,
    ErrorKind::TimedOut,
    ErrorKind::WouldBlock,
    ErrorKind::UnexpectedEof,
    ErrorKind::PermissionDenied,
];

pub fn kind_name(k: ErrorKind) -> &'static str {
    match k {
        ErrorKind::Other => "Other",
        ErrorKind::BrokenPipe => "BrokenPipe",
        ErrorKind::ConnectionReset => "ConnectionReset",
        ErrorKind::TimedOut => "TimedOut",
        ErrorKind::WouldBlock => "WouldBlock",
        ErrorKind::UnexpectedEof => "UnexpectedEof",
        ErrorKind::PermissionDenied => "PermissionDenied",
        ErrorKind::Interrupted => "Interrupted",
        ErrorKind::WriteZero => "WriteZero",
        _ => "?",
    }
}

pub fn kind_from_name(s: &str) -> Option<ErrorKind> {
    ERR_KINDS
        .iter()
        .copied()
        .chain([ErrorKind::Interrupted, ErrorKind::WriteZero])
        .find(|&k| kind_name(k) == s)
}

/// One planned reaction of the source to a `read()` call.
#[derive(Clone, Copy, Debug, PartialEq, Eq)]
pub enum Step {
    /// Deliver at most `n` bytes (n >= 1; also limited by the offered slice and the data left).
    Deliver(usize),
    /// Deliver as much as the caller offers.
    Fill,
    /// Deliver as much as the caller offers, but nothing at or beyond absolute offset `p`: the
    /// step stays current until exactly `p` bytes were delivered, so that a read boundary falls
    /// at `p` whatever the chunk size is.
    Until(usize),
    /// `Err(ErrorKind::Interrupted)`, nothing delivered.
    Interrupted,
    /// An EINTR storm: the next `n` calls all return `Err(ErrorKind::Interrupted)` (a retry limit,
    /// or a retry counter of any fixed width, would show up).
    Storm(usize),
    /// Lie: claim `offered + extra` bytes were read (nothing is delivered, stream unchanged).
    Lie(usize),
    /// Panic inside `read()` (nothing delivered).
    Panic,
    /// A sloppy `Read`: stores at most `n` bytes but reports `n + extra` (still within the offered
    /// slice). What the reader then exposes for the extra bytes is whatever its buffer held.
    Overreport(usize, usize),
}

#[derive(Clone, Debug, PartialEq, Eq)]
pub struct SourceCfg {
    /// Explicit plan, consumed one step per `read()` call.
    pub steps: Vec<Step>,
    /// When the plan is exhausted: repeat it from the start (true) or `Fill` (false).
    pub cycle: bool,
    /// The source delivers `data[..k]` and then fails with this kind (terminal).
    pub fail_at: Option<(usize, ErrorKind)>,
    /// If set, the terminal error is `io::Error::from_raw_os_error(code)` (what a real file, pipe
    /// or socket produces: EIO, ENOSPC, ...); `fail_at.1` then holds that error's kind.
    pub fail_os: Option<i32>,
    /// Scribble: after delivering n bytes the source fills the rest of the offered slice with this
    /// byte (a `Read` may do that; the caller must not look at it). Makes over-reads observable.
    pub poison: Option<u8>,
}

impl SourceCfg {
    /// Complexity rank used by the minimisers (candidates must be strictly simpler).
    pub fn rank(&self) -> u8 {
        if self.steps.is_empty() {
            0
        } else if !self.cycle && self.steps.len() == 1 && matches!(self.steps[0], Step::Deliver(_)) {
            1
        } else if self.cycle && self.steps == [Step::Deliver(1)] {
            2
        } else {
            3
        }
    }
    /// A cyclic plan without any delivering step would make every (correct) retry loop spin forever.
    pub fn live(&self) -> bool {
        !self.cycle
            || self.steps.is_empty()
            || self.steps.iter().any(|s| matches!(s, Step::Deliver(_) | Step::Fill | Step::Until(_) | Step::Overreport(..)))
    }
    pub fn one_shot() -> Self {
        SourceCfg {
            steps: vec![],
            cycle: false,
            fail_at: None,
            fail_os: None,
            poison: None,
        }
    }
    pub fn bytewise() -> Self {
        SourceCfg {
            steps: vec![Step::Deliver(1)],
            cycle: true,
            fail_at: None,
            fail_os: None,
            poison: None,
        }
    }
}

#[derive(Clone, Copy, Debug, PartialEq, Eq)]
pub enum CallRes {
    Ok(usize),
    Eof,
    Interrupted,
    Err,
    Lie,
    Panic,
}

#[derive(Default, Clone, Debug)]
pub struct SrcCounters {
    pub calls: u64,
    pub ok_calls: u64,
    pub short_reads: u64,
    pub one_byte_reads: u64,
    pub interrupted: u64,
    pub errors: u64,
    pub eofs: u64,
    pub lies: u64,
    pub panics: u64,
    pub calls_after_end: u64,
}

pub struct SrcState {
    pub data: Rc<Vec<u8>>,
    pub cfg: SourceCfg,
    pub pos: usize,
    step_idx: usize,
    /// Interrupted results still owed by the current `Storm` step.
    storm_left: usize,
    storm_calls: u64,
    /// While false the source serves `pre_steps` sizes only (used to pre-fill a `BufReader`).
    pub armed: bool,
    pub pre_sizes: Vec<usize>,
    pre_idx: usize,
    pub ended: bool,
    pub failed: bool,
    pub keep_log: bool,
    /// (offered, result, delivered-before-call)
    pub log: Vec<(usize, CallRes, usize)>,
    pub c: SrcCounters,
    pub trace: Fnv,
    pub budget: u64,
    pub budget_exceeded: bool,
}

impl SrcState {
    pub fn fail_msg(&self) -> String {
        match (self.cfg.fail_at, self.cfg.fail_os) {
            (Some(_), Some(code)) => os_or_lib_error(code).to_string(),
            (Some((k, _)), None) => format!("simulated source failure at offset {k}"),
            _ => String::new(),
        }
    }
    /// Number of successful (data-delivering) calls since log index `from`.
    pub fn delivered(&self) -> usize {
        self.pos
    }
}

#[derive(Clone)]
pub struct SimSource(pub Rc<RefCell<SrcState>>);

impl SimSource {
    pub fn new(data: Rc<Vec<u8>>, cfg: SourceCfg) -> Self {
        // calls after which the source stops recording (bounded memory in a runaway loop); a run
        // that exceeds it yields no verdict
        let budget = 2_000_000;
        SimSource(Rc::new(RefCell::new(SrcState {
            data,
            cfg,
            pos: 0,
            step_idx: 0,
            storm_left: 0,
            storm_calls: 0,
            armed: true,
            pre_sizes: vec![],
            pre_idx: 0,
            ended: false,
            failed: false,
            keep_log: true,
            log: vec![],
            c: SrcCounters::default(),
            trace: Fnv::default(),
            budget,
            budget_exceeded: false,
        })))
    }

    pub fn state(&self) -> std::cell::Ref<'_, SrcState> {
        self.0.borrow()
    }
}

impl Read for SimSource {
    fn read(&mut self, buf: &mut [u8]) -> io::Result<usize> {
        let mut guard = self.0.borrow_mut();
        let st = &mut *guard;
        let offered = buf.len();
        let before = st.pos;
        st.c.calls += 1;
        // (planned storms are bounded by construction and do not count against the budget)
        if st.c.calls - st.storm_calls > st.budget {
            st.budget_exceeded = true;
        }
        let mut quiet = false;
        let limit = match st.cfg.fail_at {
            Some((k, _)) => k.min(st.data.len()),
            None => st.data.len(),
        };

        let res: CallRes;
        let ret: io::Result<usize>;

        if st.ended || st.failed {
            st.c.calls_after_end += 1;
            res = CallRes::Eof;
            ret = Ok(0);
        } else if !st.armed {
            let n = st
                .pre_sizes
                .get(st.pre_idx)
                .copied()
                .unwrap_or(usize::MAX)
                .max(1);
            st.pre_idx += 1;
            let n = n.min(offered).min(limit - st.pos);
            buf[..n].copy_from_slice(&st.data[st.pos..st.pos + n]);
            st.pos += n;
            res = CallRes::Ok(n);
            ret = Ok(n);
        } else {
            // (an `Until` whose offset was already reached is passed over; never in cyclic plans)
            while !st.cfg.cycle
                && matches!(st.cfg.steps.get(st.step_idx), Some(Step::Until(p)) if *p <= st.pos)
            {
                st.step_idx += 1;
            }
            let step = if st.cfg.steps.is_empty() {
                Step::Fill
            } else if st.step_idx < st.cfg.steps.len() {
                st.cfg.steps[st.step_idx]
            } else if st.cfg.cycle {
                st.cfg.steps[st.step_idx % st.cfg.steps.len()]
            } else {
                Step::Fill
            };
            st.step_idx += 1;
            if let Step::Storm(n) = step {
                if st.storm_left == 0 {
                    st.storm_left = n.max(1);
                }
                st.storm_calls += 1;
                // the call log keeps the first and the last 512 calls of a storm
                quiet = st.storm_left > 512 && n.max(1) - st.storm_left > 512;
                st.storm_left -= 1;
                if st.storm_left > 0 {
                    st.step_idx -= 1; // stay on this step
                }
            }
            match step {
                Step::Interrupted | Step::Storm(_) => {
                    st.c.interrupted += 1;
                    res = CallRes::Interrupted;
                    ret = Err(io::Error::new(ErrorKind::Interrupted, "simulated EINTR"));
                }
                Step::Lie(extra) => {
                    st.c.lies += 1;
                    res = CallRes::Lie;
                    ret = Ok(offered + extra.max(1));
                }
                Step::Panic => {
                    st.c.panics += 1;
                    res = CallRes::Panic;
                    ret = Ok(0); // replaced below
                }
                Step::Overreport(n, extra) => {
                    let k = n.max(1).min(offered).min(limit - st.pos.min(limit));
                    buf[..k].copy_from_slice(&st.data[st.pos..st.pos + k]);
                    st.pos += k;
                    let claimed = (k + extra).min(offered);
                    st.c.ok_calls += 1;
                    res = CallRes::Ok(claimed);
                    ret = Ok(claimed);
                }
                Step::Deliver(_) | Step::Fill | Step::Until(_) => {
                    let want = match step {
                        Step::Deliver(n) => n.max(1),
                        Step::Until(p) if p > st.pos => {
                            if p - st.pos > offered && !st.cfg.cycle {
                                st.step_idx -= 1; // not there yet: stay on this step
                            }
                            p - st.pos
                        }
                        _ => usize::MAX,
                    };
                    if offered == 0 {
                        // A zero-length read says nothing about the stream.
                        res = CallRes::Ok(0);
                        ret = Ok(0);
                    } else if st.pos >= limit {
                        match st.cfg.fail_at {
                            Some((k, kind)) if k <= st.data.len() => {
                                st.failed = true;
                                st.c.errors += 1;
                                res = CallRes::Err;
                                ret = Err(match st.cfg.fail_os {
                                    Some(code) => os_or_lib_error(code),
                                    None => io::Error::new(kind, SimFailure { offset: k }),
                                });
                            }
                            _ => {
                                st.ended = true;
                                st.c.eofs += 1;
                                res = CallRes::Eof;
                                ret = Ok(0);
                            }
                        }
                    } else {
                        let n = want.min(offered).min(limit - st.pos);
                        buf[..n].copy_from_slice(&st.data[st.pos..st.pos + n]);
                        if let Some(p) = st.cfg.poison {
                            for b in &mut buf[n..] {
                                *b = p;
                            }
                        }
                        st.pos += n;
                        st.c.ok_calls += 1;
                        if n < offered {
                            st.c.short_reads += 1;
                        }
                        if n == 1 {
                            st.c.one_byte_reads += 1;
                        }
                        res = CallRes::Ok(n);
                        ret = Ok(n);
                    }
                }
            }
        }

        st.trace.u64(offered as u64);
        st.trace.u64(match res {
            CallRes::Ok(n) => n as u64,
            CallRes::Eof => u64::MAX,
            CallRes::Interrupted => u64::MAX - 1,
            CallRes::Err => u64::MAX - 2,
            CallRes::Lie => u64::MAX - 3,
            CallRes::Panic => u64::MAX - 4,
        });
        if st.keep_log && !st.budget_exceeded && !quiet {
            st.log.push((offered, res, before));
        }
        if res == CallRes::Panic {
            drop(guard);
            panic!("simulated panic inside Read::read");
        }
        ret
    }
}

/// Read-size policies for generated plans (swarm style: one policy per run).
#[derive(Clone, Copy, Debug, PartialEq, Eq)]
pub enum ReadPolicy {
    OneShot,
    ByteWise,
    SmallGeometric,
    Mixed,
    /// Cuts at given absolute offsets (boundary-targeted), everything else as offered.
    FixedSize(usize),
}

pub const STORM_SIZES: [usize; 14] = [
    127, 128, 255, 256, 257, 1000, 65_535, 65_536, 65_537, 100_000, 127, 65_536, 1_048_577, 2_200_000,
];

/// Generates a plan for `len` bytes of data.
///
/// `cuts`: interesting absolute offsets (token starts/ends); some policies cut at +-1 of them.
pub fn gen_plan(rng: &mut Rng, len: usize, cuts: &[usize], interrupts: u8) -> SourceCfg {
    let policy = rng.weighted(&[2, 4, 4, 4, 3, 5]);
    let mut steps = vec![];
    let mut cycle = false;
    match policy {
        0 => {} // one shot
        1 => {
            steps.push(Step::Deliver(1));
            cycle = true;
        }
        2 => {
            // fixed small size
            steps.push(Step::Deliver(*rng.pick(&[2, 3, 5, 7, 8, 9, 13, 16, 17, 64])));
            cycle = true;
        }
        3 => {
            // small geometric sizes, explicit
            let mut left = len + 4;
            while left > 0 && steps.len() < 4096 {
                let n = 1 + rng.small(24);
                steps.push(Step::Deliver(n));
                left = left.saturating_sub(n);
            }
        }
        4 => {
            // mixed: mostly big, some tiny
            let mut left = len + 4;
            while left > 0 && steps.len() < 4096 {
                let n = if rng.chance(1, 3) {
                    1 + rng.below(3)
                } else {
                    1 + rng.small(300)
                };
                steps.push(Step::Deliver(n));
                left = left.saturating_sub(n);
            }
        }
        _ => {
            // boundary targeted: choose cut positions near interesting offsets
            let mut positions: Vec<usize> = vec![];
            let ncuts = 1 + rng.small(12);
            for _ in 0..ncuts {
                let base = if !cuts.is_empty() && rng.chance(4, 5) {
                    *rng.pick(cuts)
                } else if len > 0 {
                    rng.below(len + 1)
                } else {
                    0
                };
                let delta = *rng.pick(&[-9i64, -8, -7, -2, -1, 0, 0, 1, 2, 7, 8, 9]);
                let p = (base as i64 + delta).clamp(0, len as i64) as usize;
                positions.push(p);
            }
            positions.sort_unstable();
            positions.dedup();
            let mut prev = 0;
            for p in positions {
                if p > prev {
                    // (exact for every chunk size: `Deliver(p - prev)` would only cut at p if the
                    // caller offered at least p - prev bytes in one call)
                    steps.push(Step::Until(p));
                    prev = p;
                }
            }
            // rest in one go (Fill after the plan is exhausted)
        }
    }
    // Interrupted policy: 0 none, 1 sparse, 2 bursts
    if interrupts > 0 && !steps.is_empty() || interrupts > 0 && rng.chance(1, 2) {
        let mut out = Vec::with_capacity(steps.len() + 8);
        if steps.is_empty() {
            // one shot with interrupts in front
            for _ in 0..1 + rng.below(3) {
                out.push(Step::Interrupted);
            }
            out.push(Step::Fill);
            out.push(Step::Interrupted);
        } else {
            for s in steps.iter().copied() {
                let p = if interrupts == 1 { 12 } else { 5 };
                if rng.chance(1, p) {
                    // mostly short bursts, now and then a storm (a retry limit would show up)
                    let burst = if interrupts == 1 {
                        1
                    } else if rng.chance(1, 12) {
                        5 + rng.below(60)
                    } else {
                        1 + rng.below(4)
                    };
                    for _ in 0..burst {
                        out.push(Step::Interrupted);
                    }
                }
                out.push(s);
            }
        }
        steps = out;
    }
    if interrupts == 2 && !cycle && rng.chance(1, 150) {
        // a giant storm: longer than any fixed-width retry counter up to 16 bits
        let n = *rng.pick(&STORM_SIZES);
        let n = if cfg!(miri) { n.min(300) } else { n };
        let at = rng.below(steps.len() + 1);
        steps.insert(at, Step::Storm(n));
        if steps.len() == 1 {
            steps.push(Step::Fill);
        }
    }
    SourceCfg {
        steps,
        cycle,
        fail_at: None,
        fail_os: None,
        poison: None,
    }
}

pub fn step_to_string(s: &Step) -> String {
    match s {
        Step::Deliver(n) => format!("d{n}"),
        Step::Fill => "f".to_string(),
        Step::Until(p) => format!("u{p}"),
        Step::Interrupted => "i".to_string(),
        Step::Storm(n) => format!("s{n}"),
        Step::Lie(n) => format!("l{n}"),
        Step::Panic => "p".to_string(),
        Step::Overreport(n, e) => format!("o{n}+{e}"),
    }
}

pub fn step_from_str(s: &str) -> Option<Step> {
    let (h, t) = s.split_at(1);
    Some(match h {
        "d" => Step::Deliver(t.parse().ok()?),
        "f" => Step::Fill,
        "u" => Step::Until(t.parse().ok()?),
        "i" => Step::Interrupted,
        "s" => Step::Storm(t.parse().ok()?),
        "l" => Step::Lie(t.parse().ok()?),
        "p" => Step::Panic,
        "o" => {
            let (a, b) = t.split_once('+')?;
            Step::Overreport(a.parse().ok()?, b.parse().ok()?)
        }
        _ => return None,
    })
}

impl SourceCfg {
    pub fn encode(&self) -> String {
        let steps: Vec<String> = self.steps.iter().map(step_to_string).collect();
        let fail = match (self.fail_at, self.fail_os) {
            (Some((k, _)), Some(code)) => format!("{k}:os{code}"),
            (Some((k, kind)), None) => format!("{}:{}", k, kind_name(kind)),
            _ => "-".into(),
        };
        format!(
            "{};{};{}",
            if self.cycle { "cycle" } else { "once" },
            fail,
            steps.join(",")
        )
    }
    pub fn decode(s: &str) -> Option<Self> {
        let mut it = s.splitn(3, ';');
        let cycle = it.next()? == "cycle";
        let fail = it.next()?;
        let mut fail_os = None;
        let fail_at = if fail == "-" {
            None
        } else {
            let (k, kind) = fail.split_once(':')?;
            if let Some(code) = kind.strip_prefix("os") {
                let code: i32 = code.parse().ok()?;
                fail_os = Some(code);
                Some((k.parse().ok()?, os_or_lib_error(code).kind()))
            } else {
                Some((k.parse().ok()?, kind_from_name(kind)?))
            }
        };
        let st = it.next()?;
        let steps = if st.is_empty() {
            vec![]
        } else {
            st.split(',').map(step_from_str).collect::<Option<Vec<_>>>()?
        };
        Some(SourceCfg {
            steps,
            cycle,
            fail_at,
            fail_os,
            poison: None,
        })
    }
}
