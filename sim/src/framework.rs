//! Generic seeded-search runner: per-run PRNG streams, worker pool, minimisation, replay files,
//! known findings, evidence.

use std::collections::{BTreeMap, HashSet};
use std::sync::atomic::{AtomicBool, AtomicU64, Ordering};
use std::sync::Mutex;
use std::time::Instant;

use crate::json::{Json, Kv};
use crate::rng::{mix, Rng};

pub const DEFAULT_SEED: u64 = 20261004;

#[derive(Clone, Copy, PartialEq, Eq, Debug)]
pub enum Tier {
    Quick,
    Thorough,
}

impl Tier {
    pub fn name(self) -> &'static str {
        match self {
            Tier::Quick => "quick",
            Tier::Thorough => "thorough",
        }
    }
    pub fn parse(s: &str) -> Option<Tier> {
        match s {
            "quick" => Some(Tier::Quick),
            "thorough" => Some(Tier::Thorough),
            _ => None,
        }
    }
}

pub fn build_name() -> &'static str {
    if cfg!(miri) {
        "miri"
    } else if cfg!(verif_nat) {
        "simnat"
    } else if cfg!(debug_assertions) {
        "simdbg"
    } else {
        "simrel"
    }
}

#[derive(Clone, Debug)]
pub struct Violation {
    /// Violation class, e.g. `C02.mark`; replay and minimisation must preserve it.
    pub check: &'static str,
    /// Stable description of *what* fails (used for known findings), e.g. `parser=btor2 msg=...`.
    pub signature: String,
    /// Free text for humans.
    pub detail: String,
}

pub struct RunOut {
    pub violation: Option<Violation>,
    /// `Some(key)` iff the run was non-trivial by the property's rule; key identifies the
    /// (configuration class, schedule trace) so distinct runs can be counted.
    pub key: Option<u64>,
    /// Hash of everything observable in the run (source log, sink log, API results).
    pub trace: u64,
}

#[derive(Default)]
pub struct Stats {
    pub counters: BTreeMap<String, u64>,
    pub distinct: HashSet<u64>,
    pub distinct_saturated: bool,
    pub steps: u64,
    pub nontrivial: u64,
    /// executions beyond one per run (e.g. the per-case fault-offset sweep of C04)
    pub extra_evals: u64,
    /// generic coverage bitmap (e.g. C13: which (digit count, terminator) kernel cases were hit)
    pub bits: Vec<u64>,
    /// maxima (merged by max, reported as counters `max.<name>`)
    pub maxes: BTreeMap<String, u64>,
    /// order-independent digest over (run index, run trace): equal for any worker count
    pub digest: u64,
}

const DISTINCT_CAP: usize = 3_000_000;

impl Stats {
    #[inline]
    pub fn add(&mut self, k: &str, n: u64) {
        if n == 0 {
            return;
        }
        if let Some(v) = self.counters.get_mut(k) {
            *v += n;
        } else {
            self.counters.insert(k.to_string(), n);
        }
    }
    pub fn max(&mut self, k: &str, v: u64) {
        let e = self.maxes.entry(k.to_string()).or_insert(0);
        if v > *e {
            *e = v;
        }
    }
    #[inline]
    pub fn set_bit(&mut self, idx: usize) {
        let w = idx / 64;
        if self.bits.len() <= w {
            self.bits.resize(w + 1, 0);
        }
        self.bits[w] |= 1 << (idx % 64);
    }
    pub fn bits_set(&self) -> u64 {
        self.bits.iter().map(|w| w.count_ones() as u64).sum()
    }
    #[inline]
    pub fn hit(&mut self, k: &str) {
        self.add(k, 1);
    }
    pub fn merge(&mut self, other: Stats) {
        for (k, v) in other.counters {
            *self.counters.entry(k).or_insert(0) += v;
        }
        self.steps += other.steps;
        self.extra_evals += other.extra_evals;
        self.digest = self.digest.wrapping_add(other.digest);
        for (k, v) in other.maxes {
            self.max(&k, v);
        }
        if self.bits.len() < other.bits.len() {
            self.bits.resize(other.bits.len(), 0);
        }
        for (i, w) in other.bits.iter().enumerate() {
            self.bits[i] |= w;
        }
        self.nontrivial += other.nontrivial;
        self.distinct_saturated |= other.distinct_saturated;
        for k in other.distinct {
            if self.distinct.len() < DISTINCT_CAP * 4 {
                self.distinct.insert(k);
            } else {
                self.distinct_saturated = true;
            }
        }
    }
    fn note_key(&mut self, k: u64) {
        self.nontrivial += 1;
        if self.distinct.len() < DISTINCT_CAP {
            self.distinct.insert(k);
        } else {
            self.distinct_saturated = true;
        }
    }
}

pub struct Meta {
    pub level: &'static str,
    pub rule: &'static str,
    pub assumptions: Vec<&'static str>,
    pub real: Vec<&'static str>,
    pub stub: Vec<&'static str>,
}

pub trait Prop: Sync {
    type Case: Clone + Send + 'static;
    fn id(&self) -> &'static str;
    fn meta(&self) -> Meta;
    /// Number of runs for this tier in the current build (0 = this build is not used).
    fn runs(&self, tier: Tier) -> u64;
    fn gen(&self, rng: &mut Rng, tier: Tier) -> Self::Case;
    fn exec(&self, case: &Self::Case, st: &mut Stats) -> RunOut;
    /// Simpler candidate cases, most aggressive first.
    fn shrink(&self, case: &Self::Case) -> Vec<Self::Case>;
    fn encode(&self, case: &Self::Case, kv: &mut Kv);
    fn decode(&self, kv: &Kv) -> Option<Self::Case>;
    fn sample(&self, case: &Self::Case) -> Json;
    /// Upper bound on worker threads (components whose single run holds hundreds of MiB).
    fn max_threads(&self) -> usize {
        usize::MAX
    }
}

pub struct Found<C> {
    pub run: u64,
    pub case: C,
    pub violation: Violation,
}

pub struct Outcome<C> {
    pub stats: Stats,
    pub evaluations: u64,
    pub found: Vec<Found<C>>,
    pub samples: Vec<Json>,
    pub wall_s: f64,
    pub nondeterministic: Vec<u64>,
}

pub struct Opts {
    pub seed: u64,
    pub tier: Tier,
    pub threads: usize,
    pub runs_override: Option<u64>,
    /// first K runs are executed twice and their traces compared
    pub determinism_probe: u64,
}

static CURRENT: Mutex<Vec<(u64, Instant)>> = Mutex::new(Vec::new());

thread_local! {
    static WORKER: std::cell::Cell<usize> = const { std::cell::Cell::new(usize::MAX) };
}

/// Called by components whose single run consists of many independent executions (C04's sweep
/// over fault offsets): the watchdog's "no progress" clock restarts, so that it measures one
/// execution and not the whole sweep.
pub fn heartbeat() {
    let w = WORKER.with(|c| c.get());
    if w != usize::MAX {
        if let Ok(mut cur) = CURRENT.lock() {
            if let Some(e) = cur.get_mut(w) {
                e.1 = Instant::now();
            }
        }
    }
}

/// Runs the seeded search for one property in this process.
pub fn search<P: Prop>(p: &P, opts: &Opts) -> Outcome<P::Case> {
    let total = opts.runs_override.unwrap_or_else(|| p.runs(opts.tier));
    let tag = format!("{}/{}", p.id(), stream_tag());
    let next = AtomicU64::new(0);
    let stop = AtomicBool::new(false);
    let results: Mutex<(Stats, Vec<Found<P::Case>>, Vec<u64>)> =
        Mutex::new((Stats::default(), vec![], vec![]));
    let start = Instant::now();
    let threads = opts.threads.max(1).min(p.max_threads().max(1));
    {
        let mut cur = CURRENT.lock().unwrap();
        cur.clear();
        cur.resize(threads, (u64::MAX, Instant::now()));
    }
    let watchdog_done = AtomicBool::new(false);
    let trace_file: Option<Mutex<std::fs::File>> = std::env::var("VERIF_TRACE_FILE")
        .ok()
        .and_then(|p| std::fs::File::create(p).ok())
        .map(Mutex::new);
    let trace_file = &trace_file;
    // block size: big enough to keep contention low, small enough to balance short batches
    let block: u64 = (total / (threads as u64 * 8)).clamp(1, 64);

    std::thread::scope(|scope| {
        // watchdog: turns a hang into a report instead of a silent stall
        let wd = scope.spawn(|| {
            let limit = std::time::Duration::from_secs(
                std::env::var("VERIF_HANG_S")
                    .ok()
                    .and_then(|s| s.parse().ok())
                    .unwrap_or(300),
            );
            while !watchdog_done.load(Ordering::Relaxed) {
                std::thread::sleep(std::time::Duration::from_millis(200));
                let cur = CURRENT.lock().unwrap();
                for &(run, since) in cur.iter() {
                    if run != u64::MAX && since.elapsed() > limit {
                        println!(
                            "HANG property={} run={} seed={} build={} (no progress for {:?})",
                            p.id(),
                            run,
                            opts.seed,
                            build_name(),
                            limit
                        );
                        std::process::exit(3);
                    }
                }
            }
        });
        let mut handles = vec![];
        for w in 0..threads {
            let next = &next;
            let stop = &stop;
            let results = &results;
            let tag = &tag;
            handles.push(scope.spawn(move || {
                crate::crash::install_hook();
                WORKER.with(|c| c.set(w));
                let mut st = Stats::default();
                let mut found = vec![];
                let mut nondet = vec![];
                loop {
                    if stop.load(Ordering::Relaxed) {
                        break;
                    }
                    let lo = next.fetch_add(block, Ordering::Relaxed);
                    if lo >= total {
                        break;
                    }
                    for run in lo..(lo + block).min(total) {
                        {
                            let mut cur = CURRENT.lock().unwrap();
                            cur[w] = (run, Instant::now());
                        }
                        if let Some(f) = trace_file.as_ref() {
                            // crash location: the run index survives the death of the process
                            use std::io::{Seek, SeekFrom, Write};
                            let mut f = f.lock().unwrap();
                            let _ = f.seek(SeekFrom::Start(0));
                            let _ = writeln!(f, "{run:>20}");
                        }
                        let mut rng = Rng::new(mix(opts.seed, tag, run));
                        let case = p.gen(&mut rng, opts.tier);
                        let out = p.exec(&case, &mut st);
                        st.hit("runs");
                        {
                            let mut h = crate::rng::Fnv::default();
                            h.u64(run);
                            h.u64(out.trace);
                            h.byte(out.violation.is_some() as u8);
                            st.digest = st.digest.wrapping_add(h.0);
                        }
                        if let Some(k) = out.key {
                            st.note_key(k);
                        }
                        if run < opts.determinism_probe {
                            let mut scratch = Stats::default();
                            let mut rng2 = Rng::new(mix(opts.seed, tag, run));
                            let case2 = p.gen(&mut rng2, opts.tier);
                            let out2 = p.exec(&case2, &mut scratch);
                            if out2.trace != out.trace
                                || out2.violation.is_some() != out.violation.is_some()
                            {
                                nondet.push(run);
                            }
                        }
                        if let Some(v) = out.violation {
                            found.push(Found {
                                run,
                                case,
                                violation: v,
                            });
                            // memory-safety components stop at the first finding: carrying on
                            // after a heap overrun risks taking the whole process down
                            if found.len() >= 8 || p.id().starts_with("C14") {
                                stop.store(true, Ordering::Relaxed);
                            }
                        }
                    }
                }
                {
                    let mut cur = CURRENT.lock().unwrap();
                    cur[w] = (u64::MAX, Instant::now());
                }
                let mut r = results.lock().unwrap();
                r.0.merge(st);
                r.1.extend(found);
                r.2.extend(nondet);
            }));
        }
        for h in handles {
            let _ = h.join();
        }
        watchdog_done.store(true, Ordering::Relaxed);
        let _ = wd.join();
    });

    let (stats, mut found, nondet) = results.into_inner().unwrap();
    found.sort_by_key(|f| f.run);
    let evaluations = stats.counters.get("runs").copied().unwrap_or(0) + stats.extra_evals;

    // a few samples: the first runs of the stream, regenerated (generation is a pure function)
    let mut samples = vec![];
    for run in 0..3u64.min(total) {
        let mut rng = Rng::new(mix(opts.seed, &tag, run));
        let case = p.gen(&mut rng, opts.tier);
        samples.push(p.sample(&case));
    }

    Outcome {
        stats,
        evaluations,
        found,
        samples,
        wall_s: start.elapsed().as_secs_f64(),
        nondeterministic: nondet,
    }
}

/// The two native builds use different streams so that together they cover more cases.
pub fn stream_tag() -> &'static str {
    if cfg!(verif_nat) {
        "nat"
    } else if cfg!(debug_assertions) {
        "dbg"
    } else {
        "rel"
    }
}

/// Greedy bounded minimisation preserving the violation class.
pub fn minimise<P: Prop>(p: &P, case: P::Case, v: Violation) -> (P::Case, Violation, u64) {
    let mut best = case;
    let mut best_v = v;
    let mut budget: u64 = 3000;
    let mut used = 0;
    let mut scratch = Stats::default();
    // bounded in executions and in wall-clock time (a report with a less than minimal case is
    // better than a late one)
    let started = Instant::now();
    let limit = std::time::Duration::from_secs(90);
    'outer: loop {
        let cands = p.shrink(&best);
        for c in cands {
            if budget == 0 || started.elapsed() > limit {
                break 'outer;
            }
            budget -= 1;
            used += 1;
            let out = p.exec(&c, &mut scratch);
            if let Some(v2) = out.violation {
                if v2.check == best_v.check {
                    best = c;
                    best_v = v2;
                    continue 'outer;
                }
            }
        }
        break;
    }
    (best, best_v, used)
}

pub fn replay_kv<P: Prop>(
    p: &P,
    seed: u64,
    run: u64,
    case: &P::Case,
    v: &Violation,
    minimised_steps: u64,
) -> Kv {
    let mut kv = Kv::new();
    kv.put("property", p.id());
    kv.put("check", v.check);
    kv.put("build", build_name());
    kv.put("seed", seed);
    kv.put("run", run);
    kv.put("minimise_executions", minimised_steps);
    kv.put("signature", &v.signature);
    kv.put("detail", &v.detail);
    p.encode(case, &mut kv);
    kv
}

/// Executes a replay file's explicit case. Returns the violation (if any).
pub fn replay<P: Prop>(p: &P, kv: &Kv) -> Result<Option<Violation>, String> {
    let case = p
        .decode(kv)
        .ok_or_else(|| "cannot decode case from replay file".to_string())?;
    crate::crash::install_hook();
    let mut st = Stats::default();
    Ok(p.exec(&case, &mut st).violation)
}

pub struct Known {
    pub findings: Vec<(String, String)>, // (property, signature)
}

impl Known {
    pub fn load(path: &str) -> Known {
        let mut findings = vec![];
        if let Ok(text) = std::fs::read_to_string(path) {
            for line in text.lines() {
                let line = line.trim();
                if let Some(rest) = line.strip_prefix("finding:") {
                    let rest = rest.trim();
                    if let Some(r2) = rest.strip_prefix("property=") {
                        if let Some((id, sig)) = r2.split_once(' ') {
                            findings.push((id.to_string(), sig.trim().to_string()));
                        }
                    }
                }
            }
        }
        Known { findings }
    }
    pub fn matches(&self, prop: &str, sig: &str) -> bool {
        self.findings.iter().any(|(p, s)| p == prop && s == sig)
    }
}

pub fn counters_json(st: &Stats) -> Json {
    Json::O(
        st.counters
            .iter()
            .map(|(k, v)| (k.clone(), Json::U(*v)))
            .collect(),
    )
}
