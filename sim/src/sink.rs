//! `SimSink`: the simulated byte sink behind the `Write` seam.

use std::cell::RefCell;
use std::io::{self, ErrorKind, Write};
use std::rc::Rc;

use crate::rng::{Fnv, Rng};
use crate::source::{kind_from_name, kind_name, ERR_KINDS};

#[derive(Clone, Copy, Debug, PartialEq, Eq)]
pub enum WStep {
    /// Accept everything offered.
    Accept,
    /// Accept at most n bytes (n >= 1).
    Short(usize),
    Interrupted,
    /// The next n calls all return `Err(ErrorKind::Interrupted)`.
    Storm(usize),
    /// `Ok(0)`: `write_all` turns this into a `WriteZero` error.
    Zero,
    Fail(ErrorKind),
    /// Fail with `io::Error::from_raw_os_error(code)` (ENOSPC, EIO, EPIPE, ...).
    FailOs(i32),
    /// Claim more bytes than offered were written (nothing is accepted).
    Lie(usize),
    Panic,
}

#[derive(Clone, Debug, PartialEq, Eq)]
pub struct SinkCfg {
    pub steps: Vec<WStep>,
    pub cycle: bool,
}

impl SinkCfg {
    /// A cyclic plan that never accepts anything makes std's `write_all` retry forever (correctly).
    pub fn live(&self) -> bool {
        !self.cycle
            || self.steps.is_empty()
            || self.steps.iter().any(|s| matches!(s, WStep::Accept | WStep::Short(_)))
    }
    pub fn accept_all() -> Self {
        SinkCfg {
            steps: vec![],
            cycle: false,
        }
    }
}

#[derive(Clone, Copy, Debug, PartialEq, Eq)]
pub enum WRes {
    Ok(usize),
    Interrupted,
    Zero,
    Err(ErrorKind),
    Lie,
    Panic,
}

#[derive(Default, Clone, Debug)]
pub struct SinkCounters {
    pub calls: u64,
    pub full_writes: u64,
    pub short_writes: u64,
    pub interrupted: u64,
    pub zeros: u64,
    pub errors: u64,
    pub lies: u64,
    pub panics: u64,
    pub flushes: u64,
    pub empty_calls: u64,
    pub vectored_calls: u64,
}

/// Calls after which the sink stops recording.
pub const CALL_BUDGET: u64 = 20_000_000;

pub struct SinkState {
    /// raw OS code of the most recent failure, if it was an OS error (taken by the checker)
    pub last_os_error: std::cell::Cell<Option<i32>>,
    pub budget_exceeded: bool,
    pub cfg: SinkCfg,
    step_idx: usize,
    storm_left: usize,
    pub accepted: Vec<u8>,
    pub log: Vec<(usize, WRes)>,
    pub c: SinkCounters,
    pub trace: Fnv,
    pub fail_seq: u64,
}

impl SinkState {
    pub fn fail_msg(seq: u64) -> String {
        format!("simulated sink failure #{seq}")
    }
}

/// Typed payload of every simulated (non-OS) sink failure.
#[derive(Debug)]
pub struct SinkFailure {
    pub seq: u64,
}

impl std::fmt::Display for SinkFailure {
    fn fmt(&self, f: &mut std::fmt::Formatter<'_>) -> std::fmt::Result {
        f.write_str(&SinkState::fail_msg(self.seq))
    }
}

impl std::error::Error for SinkFailure {}

/// Text of an error as the checks compare it: an error that carries the text of a simulated sink
/// failure but not its typed payload is a copy, not the sink's error.
pub fn describe_error(e: &io::Error) -> String {
    let text = e.to_string();
    let has_payload = e.get_ref().map_or(false, |r| r.downcast_ref::<SinkFailure>().is_some());
    if text.starts_with("simulated sink failure #") && !has_payload {
        format!("{text} [typed payload lost: not the sink's error object]")
    } else {
        text
    }
}

#[derive(Clone)]
pub struct SimSink(pub Rc<RefCell<SinkState>>);

impl SimSink {
    pub fn new(cfg: SinkCfg) -> Self {
        SimSink(Rc::new(RefCell::new(SinkState {
            last_os_error: std::cell::Cell::new(None),
            budget_exceeded: false,
            cfg,
            step_idx: 0,
            storm_left: 0,
            accepted: vec![],
            log: vec![],
            c: SinkCounters::default(),
            trace: Fnv::default(),
            fail_seq: 0,
        })))
    }
    pub fn state(&self) -> std::cell::Ref<'_, SinkState> {
        self.0.borrow()
    }
}

impl Write for SimSink {
    fn write(&mut self, buf: &[u8]) -> io::Result<usize> {
        let mut guard = self.0.borrow_mut();
        let st = &mut *guard;
        st.c.calls += 1;
        let offered = buf.len();
        if st.c.calls > CALL_BUDGET {
            // a runaway loop in the code under test: stop recording (bounded memory) and let the
            // watchdog turn the hang into a report
            st.budget_exceeded = true;
            return Ok(offered);
        }
        if offered == 0 {
            st.c.empty_calls += 1;
        }
        let step = if st.cfg.steps.is_empty() {
            WStep::Accept
        } else if st.step_idx < st.cfg.steps.len() {
            st.cfg.steps[st.step_idx]
        } else if st.cfg.cycle {
            st.cfg.steps[st.step_idx % st.cfg.steps.len()]
        } else {
            WStep::Accept
        };
        st.step_idx += 1;
        let mut quiet = false;
        if let WStep::Storm(n) = step {
            if st.storm_left == 0 {
                st.storm_left = n.max(1);
            }
            quiet = st.storm_left > 512 && n.max(1) - st.storm_left > 512;
            st.storm_left -= 1;
            if st.storm_left > 0 {
                st.step_idx -= 1;
            }
        }
        let (res, ret): (WRes, io::Result<usize>) = match step {
            WStep::Accept => {
                st.accepted.extend_from_slice(buf);
                st.c.full_writes += 1;
                (WRes::Ok(offered), Ok(offered))
            }
            WStep::Short(n) => {
                let n = n.max(1).min(offered);
                st.accepted.extend_from_slice(&buf[..n]);
                if n < offered {
                    st.c.short_writes += 1;
                } else {
                    st.c.full_writes += 1;
                }
                (WRes::Ok(n), Ok(n))
            }
            WStep::Interrupted | WStep::Storm(_) => {
                st.c.interrupted += 1;
                (
                    WRes::Interrupted,
                    Err(io::Error::new(ErrorKind::Interrupted, "simulated EINTR")),
                )
            }
            WStep::Zero => {
                st.c.zeros += 1;
                (WRes::Zero, Ok(0))
            }
            WStep::Fail(kind) => {
                st.c.errors += 1;
                st.fail_seq += 1;
                st.last_os_error.set(None);
                (
                    WRes::Err(kind),
                    Err(io::Error::new(kind, SinkFailure { seq: st.fail_seq })),
                )
            }
            WStep::FailOs(code) => {
                st.c.errors += 1;
                st.fail_seq += 1;
                let e = io::Error::from_raw_os_error(code);
                st.last_os_error.set(Some(code));
                (WRes::Err(e.kind()), Err(e))
            }
            WStep::Lie(extra) => {
                st.c.lies += 1;
                (WRes::Lie, Ok(offered + extra.max(1)))
            }
            WStep::Panic => {
                st.c.panics += 1;
                (WRes::Panic, Ok(0))
            }
        };
        st.trace.u64(offered as u64);
        st.trace.u64(match res {
            WRes::Ok(n) => n as u64,
            WRes::Interrupted => u64::MAX,
            WRes::Zero => u64::MAX - 1,
            WRes::Err(_) => u64::MAX - 2,
            WRes::Lie => u64::MAX - 3,
            WRes::Panic => u64::MAX - 4,
        });
        if !quiet {
            st.log.push((offered, res));
        }
        if res == WRes::Panic {
            drop(guard);
            panic!("simulated panic inside Write::write");
        }
        ret
    }

    /// A real gathering sink (files, sockets): one plan step applies to the concatenation of the
    /// slices, so that a short count can end inside any of them.
    fn write_vectored(&mut self, bufs: &[io::IoSlice<'_>]) -> io::Result<usize> {
        self.0.borrow_mut().c.vectored_calls += 1;
        let all: Vec<u8> = bufs.iter().flat_map(|b| b.iter().copied()).collect();
        self.write(&all)
    }

    fn flush(&mut self) -> io::Result<()> {
        self.0.borrow_mut().c.flushes += 1;
        Ok(())
    }
}

/// Sink policy classes: 0 = accept all, 1 = benign (short writes / Interrupted), 2 = failing,
/// 3 = hostile (also lies and panics; C14 only).
pub fn gen_sink(rng: &mut Rng, class: u8) -> SinkCfg {
    match class {
        0 => SinkCfg::accept_all(),
        1 => {
            let mut steps = vec![];
            let n = 1 + rng.small(40);
            for _ in 0..n {
                let step = match rng.weighted(&[3, 4, 2]) {
                    0 => WStep::Accept,
                    1 => WStep::Short(1 + rng.small(40)),
                    _ => {
                        if rng.chance(1, 10) {
                            // an EINTR storm
                            for _ in 0..4 + rng.below(40) {
                                steps.push(WStep::Interrupted);
                            }
                        }
                        WStep::Interrupted
                    }
                };
                steps.push(step);
            }
            let cycle = rng.chance(2, 3);
            // (a storm in a cyclic plan would come round again and again: non-cyclic plans only)
            if !cycle && rng.chance(1, 50) {
                let n = *rng.pick(&crate::source::STORM_SIZES);
                let n = if cfg!(miri) { n.min(300) } else { n };
                let at = rng.below(steps.len() + 1);
                steps.insert(at, WStep::Storm(n));
            }
            // never end a cycle with Interrupted only
            steps.push(WStep::Short(1 + rng.small(10)));
            SinkCfg { steps, cycle }
        }
        _ => {
            let mut steps = vec![];
            let n = 1 + rng.small(30);
            for _ in 0..n {
                let w: &[usize] = if class == 2 {
                    &[6, 5, 2, 2, 1, 0, 0]
                } else {
                    &[6, 5, 2, 2, 1, 1, 1]
                };
                steps.push(match rng.weighted(w) {
                    0 => WStep::Accept,
                    1 => WStep::Short(1 + rng.small(40)),
                    2 => WStep::Interrupted,
                    3 if rng.chance(1, 3) => WStep::FailOs(*rng.pick(&crate::source::OS_CODES)),
                    3 => WStep::Fail(*rng.pick(&ERR_KINDS)),
                    4 => WStep::Zero,
                    5 => WStep::Lie(1 + rng.small(5)),
                    _ => WStep::Panic,
                });
            }
            if !steps
                .iter()
                .any(|s| matches!(s, WStep::Fail(_) | WStep::FailOs(_) | WStep::Zero | WStep::Lie(_) | WStep::Panic))
            {
                let at = rng.below(steps.len() + 1);
                steps.insert(at, WStep::Fail(*rng.pick(&ERR_KINDS)));
            }
            steps.push(WStep::Accept);
            SinkCfg {
                steps,
                cycle: rng.chance(1, 2),
            }
        }
    }
}

pub fn wstep_to_string(s: &WStep) -> String {
    match s {
        WStep::Accept => "a".into(),
        WStep::Short(n) => format!("s{n}"),
        WStep::Interrupted => "i".into(),
        WStep::Storm(n) => format!("S{n}"),
        WStep::Zero => "z".into(),
        WStep::Fail(k) => format!("e{}", kind_name(*k)),
        WStep::FailOs(c) => format!("o{c}"),
        WStep::Lie(n) => format!("l{n}"),
        WStep::Panic => "p".into(),
    }
}

pub fn wstep_from_str(s: &str) -> Option<WStep> {
    let (h, t) = s.split_at(1);
    Some(match h {
        "a" => WStep::Accept,
        "s" => WStep::Short(t.parse().ok()?),
        "i" => WStep::Interrupted,
        "S" => WStep::Storm(t.parse().ok()?),
        "z" => WStep::Zero,
        "e" => WStep::Fail(kind_from_name(t)?),
        "o" => WStep::FailOs(t.parse().ok()?),
        "l" => WStep::Lie(t.parse().ok()?),
        "p" => WStep::Panic,
        _ => return None,
    })
}

impl SinkCfg {
    pub fn encode(&self) -> String {
        let steps: Vec<String> = self.steps.iter().map(wstep_to_string).collect();
        format!(
            "{};{}",
            if self.cycle { "cycle" } else { "once" },
            steps.join(",")
        )
    }
    pub fn decode(s: &str) -> Option<Self> {
        let (c, st) = s.split_once(';')?;
        let steps = if st.is_empty() {
            vec![]
        } else {
            st.split(',').map(wstep_from_str).collect::<Option<Vec<_>>>()?
        };
        Some(SinkCfg {
            steps,
            cycle: c == "cycle",
        })
    }
}
