//! Tiny JSON value + writer (evidence files) and the key=value replay-file format.

use std::fmt::Write as _;

#[derive(Clone, Debug)]
pub enum Json {
    Null,
    Bool(bool),
    U(u64),
    I(i64),
    F(f64),
    S(String),
    A(Vec<Json>),
    O(Vec<(String, Json)>),
    /// already rendered JSON text
    Raw(String),
}

impl Json {
    pub fn s(x: impl Into<String>) -> Json {
        Json::S(x.into())
    }
    pub fn obj(pairs: Vec<(&str, Json)>) -> Json {
        Json::O(pairs.into_iter().map(|(k, v)| (k.to_string(), v)).collect())
    }
    pub fn render(&self) -> String {
        let mut out = String::new();
        self.write(&mut out, 0);
        out.push('\n');
        out
    }
    fn write(&self, out: &mut String, ind: usize) {
        match self {
            Json::Null => out.push_str("null"),
            Json::Bool(b) => out.push_str(if *b { "true" } else { "false" }),
            Json::U(v) => {
                let _ = write!(out, "{v}");
            }
            Json::I(v) => {
                let _ = write!(out, "{v}");
            }
            Json::F(v) => {
                if v.is_finite() {
                    let _ = write!(out, "{:.3}", v);
                } else {
                    out.push_str("0.0");
                }
            }
            Json::S(s) => write_str(out, s),
            Json::Raw(s) => out.push_str(s.trim()),
            Json::A(xs) => {
                if xs.is_empty() {
                    out.push_str("[]");
                    return;
                }
                out.push_str("[\n");
                for (i, x) in xs.iter().enumerate() {
                    pad(out, ind + 1);
                    x.write(out, ind + 1);
                    if i + 1 < xs.len() {
                        out.push(',');
                    }
                    out.push('\n');
                }
                pad(out, ind);
                out.push(']');
            }
            Json::O(kv) => {
                if kv.is_empty() {
                    out.push_str("{}");
                    return;
                }
                out.push_str("{\n");
                for (i, (k, v)) in kv.iter().enumerate() {
                    pad(out, ind + 1);
                    write_str(out, k);
                    out.push_str(": ");
                    v.write(out, ind + 1);
                    if i + 1 < kv.len() {
                        out.push(',');
                    }
                    out.push('\n');
                }
                pad(out, ind);
                out.push('}');
            }
        }
    }
}

fn pad(out: &mut String, n: usize) {
    for _ in 0..n {
        out.push(' ');
    }
}

fn write_str(out: &mut String, s: &str) {
    out.push('"');
    for c in s.chars() {
        match c {
            '"' => out.push_str("\\\""),
            '\\' => out.push_str("\\\\"),
            '\n' => out.push_str("\\n"),
            '\r' => out.push_str("\\r"),
            '\t' => out.push_str("\\t"),
            c if (c as u32) < 0x20 => {
                let _ = write!(out, "\\u{:04x}", c as u32);
            }
            c => out.push(c),
        }
    }
    out.push('"');
}

/// Printable rendering of a byte string for evidence samples and messages.
pub fn show_bytes(b: &[u8]) -> String {
    let mut s = String::new();
    for &c in b.iter().take(400) {
        match c {
            b'\n' => s.push_str("\\n"),
            b'\r' => s.push_str("\\r"),
            b'\t' => s.push_str("\\t"),
            b'\\' => s.push_str("\\\\"),
            0x20..=0x7e => s.push(c as char),
            _ => {
                let _ = write!(s, "\\x{:02x}", c);
            }
        }
    }
    if b.len() > 400 {
        let _ = write!(s, "...(+{} bytes)", b.len() - 400);
    }
    s
}

pub fn hex(b: &[u8]) -> String {
    const T: &[u8; 16] = b"0123456789abcdef";
    let mut s = Vec::with_capacity(b.len() * 2);
    for &c in b {
        s.push(T[(c >> 4) as usize]);
        s.push(T[(c & 15) as usize]);
    }
    String::from_utf8(s).unwrap()
}

pub fn unhex(s: &str) -> Option<Vec<u8>> {
    if s.len() % 2 != 0 {
        return None;
    }
    (0..s.len() / 2)
        .map(|i| u8::from_str_radix(&s[2 * i..2 * i + 2], 16).ok())
        .collect()
}

/// key=value lines; values are single-line (escaped).
#[derive(Clone, Debug, Default)]
pub struct Kv(pub Vec<(String, String)>);

impl Kv {
    pub fn new() -> Self {
        Kv(vec![])
    }
    pub fn put(&mut self, k: &str, v: impl ToString) {
        self.0.push((k.to_string(), v.to_string()));
    }
    pub fn get(&self, k: &str) -> Option<&str> {
        self.0.iter().find(|(kk, _)| kk == k).map(|(_, v)| v.as_str())
    }
    pub fn get_usize(&self, k: &str) -> Option<usize> {
        self.get(k)?.parse().ok()
    }
    pub fn get_u64(&self, k: &str) -> Option<u64> {
        self.get(k)?.parse().ok()
    }
    pub fn get_bytes(&self, k: &str) -> Option<Vec<u8>> {
        unhex(self.get(k)?)
    }
    pub fn render(&self) -> String {
        let mut out = String::new();
        for (k, v) in &self.0 {
            out.push_str(k);
            out.push('=');
            for c in v.chars() {
                match c {
                    '\n' => out.push_str("\\n"),
                    '\r' => out.push_str("\\r"),
                    '\\' => out.push_str("\\\\"),
                    c => out.push(c),
                }
            }
            out.push('\n');
        }
        out
    }
    pub fn parse(text: &str) -> Kv {
        let mut kv = Kv::new();
        for line in text.lines() {
            if line.starts_with('#') || line.trim().is_empty() {
                continue;
            }
            if let Some((k, v)) = line.split_once('=') {
                let mut val = String::new();
                let mut it = v.chars();
                while let Some(c) = it.next() {
                    if c == '\\' {
                        match it.next() {
                            Some('n') => val.push('\n'),
                            Some('r') => val.push('\r'),
                            Some('\\') => val.push('\\'),
                            Some(o) => {
                                val.push('\\');
                                val.push(o)
                            }
                            None => val.push('\\'),
                        }
                    } else {
                        val.push(c);
                    }
                }
                kv.0.push((k.to_string(), val));
            }
        }
        kv
    }
}
