#!/bin/bash
# Re-runs the quick check of its property against every seeded change (scratch copy, /repo untouched)
# and prints one line per change: CAUGHT <id> <check ids> | MISSED <id> | NOAPPLY <id>.
cd "$(dirname "$0")/.." || exit 2
tools/refresh_scratch.sh >/dev/null || exit 2
caught=0; missed=0
for d in seeded/*/; do
  id=$(basename "$d"); prop=${id%%-*}
  out=$(VERIF_HANG_S=${VERIF_HANG_S:-90} tools/try_mutant_scratch.sh "$PWD/$d/patch.diff" "$prop" quick 2>&1)
  if echo "$out" | grep -q "PATCH-DOES-NOT-APPLY"; then echo "NOAPPLY $id"; continue; fi
  if echo "$out" | grep -q "^exit=1"; then
    caught=$((caught+1)); echo "CAUGHT $id $(echo "$out" | grep -o 'violation check=[A-Za-z0-9_.]*' | sort -u | sed 's/violation check=//' | tr '\n' ' ')"
  else
    missed=$((missed+1)); echo "MISSED $id $(echo "$out" | tail -1)"
  fi
done
echo "recheck finished: caught=$caught missed=$missed"
