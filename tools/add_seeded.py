#!/usr/bin/env python3
"""usage: tools/add_seeded.py <src dir> <seeded id> <PROPERTY>   (uses the scratch runner, never touches /repo)"""
import json, os, shutil, subprocess, re, sys
src, sid, prop = sys.argv[1:4]
dst=f'/verif/seeded/{sid}'; os.makedirs(dst,exist_ok=True)
for f in ['patch.diff','demo.rs','README.md']:
    shutil.copy(f'{src}/{f}',f'{dst}/{f}')
r=subprocess.run(['/verif/tools/confirm_mutant.sh',src,os.environ.get('CONFIRM_WT','/tmp/seedchk')],capture_output=True,text=True)
conf=r.stdout.strip().splitlines()[-1] if r.stdout.strip() else 'NO OUTPUT'
d=subprocess.run(['/verif/tools/try_mutant_scratch.sh',f'{dst}/patch.diff',prop,'quick'],capture_output=True,text=True)
lines=[l.strip() for l in d.stdout.splitlines()]
checks=sorted(set(re.findall(r'violation check=(\S+)',d.stdout)))
code=[l for l in lines if l.startswith('exit=')]
head=subprocess.run(['git','-C','/repo','log','--oneline','-1'],capture_output=True,text=True).stdout.strip()
readme=open(f'{dst}/README.md').read()
m=re.search(r'(?is)(what is needed[^\n]*\n+|## trigger[^\n]*\n+|\*\*trigger[^\n]*|manifest[^\n]*\n+)(.{0,900})',readme)
meta={'id':sid,'property':prop,
 'origin':os.environ.get('ORIGIN') or 'second and later rounds: written by an independent sub-agent that saw only the property text and a scratch worktree of the repaired /repo (round 2: plus a hint which source area to look at; round 3: asked for two coinciding conditions; round 4: asked to evade a small-input randomized tester)',
 'applies_to_repo_head':head,
 'needs_to_manifest':(m.group(0).strip()[:900] if m else 'see README.md'),
 'confirmed':{'how':'tools/confirm_mutant.sh in a scratch worktree at /repo HEAD: patch applies, `cargo test --workspace --no-fail-fast --offline` passes with the patch, the demo fails with the patch and passes without it','result':conf},
 'detected_by':{'command':f'./check {prop} quick against a scratch copy of the repository with the patch applied (tools/try_mutant_scratch.sh)','exit':code[0] if code else '?','violation_checks':checks,'first_lines':[l for l in lines if l.startswith('violation check')][:3]}}
json.dump(meta,open(f'{dst}/meta.json','w'),indent=1)
print(sid,conf.split()[2] if len(conf.split())>2 else conf,code,checks,flush=True)
