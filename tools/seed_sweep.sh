#!/bin/bash
# usage: tools/seed_sweep.sh <first> <last> [tier]  -- runs every registered check with several VERIF_SEED values
# and reports any run that does not exit 0 (false-alarm hunt on the unchanged tree).
first=${1:-1}; last=${2:-8}; tier=${3:-quick}
cd "$(dirname "$0")/.." || exit 2
bad=0
for seed in $(seq "$first" "$last"); do
  for p in C01 C02 C04 C08 C09 C10 C11 C13 C14 C16; do
    out=$(VERIF_SEED=$seed VERIF_NO_MIRI=${VERIF_NO_MIRI:-} ./check $p $tier 2>&1); code=$?
    if [ $code -ne 0 ]; then bad=$((bad+1)); echo "SEED $seed $p exit=$code"; echo "$out" | grep -E "violation|VIOLATION|harness|HANG" | head -5; fi
  done
  echo "seed $seed done"
done
echo "sweep finished: $bad non-zero exits"
