#!/bin/bash
# (Re)creates the scratch setup used by tools/try_mutant_scratch.sh:
#   /tmp/mt  = detached worktree of /repo HEAD, /tmp/vh = copy of committed /verif whose simulator builds against /tmp/mt.
set -e
if [ ! -d /tmp/mt ]; then git -C /repo worktree add --detach /tmp/mt HEAD >/dev/null; cp /repo/Cargo.lock /tmp/mt/; fi
git -C /tmp/mt reset -q --hard HEAD; git -C /tmp/mt checkout -q --detach "$(git -C /repo rev-parse HEAD)"
mkdir -p /tmp/vh
(cd /verif && git archive HEAD | tar -x -C /tmp/vh --exclude=evidence)
sed -i 's#path = "/repo/#path = "/tmp/mt/#' /tmp/vh/sim/Cargo.toml
echo "scratch ready: /tmp/mt @ $(git -C /tmp/mt log --oneline -1)"
