#!/bin/bash
# (Re)creates the scratch setup used by tools/try_mutant_scratch.sh:
#   /tmp/mt$S  = detached worktree of /repo HEAD, /tmp/vh$S = copy of committed /verif whose simulator builds against /tmp/mt$S.
set -e
S="${SCR:-}"   # optional suffix: a second, independent scratch pair (SCR=2 -> /tmp/mt$S2, /tmp/vh$S2)
if [ ! -d /tmp/mt$S ]; then git -C /repo worktree add --detach /tmp/mt$S HEAD >/dev/null; cp /repo/Cargo.lock /tmp/mt$S/; fi
git -C /tmp/mt$S reset -q --hard HEAD; git -C /tmp/mt$S checkout -q --detach "$(git -C /repo rev-parse HEAD)"
mkdir -p /tmp/vh$S
(cd /verif && git archive HEAD | tar -x -C /tmp/vh$S --exclude=evidence)
sed -i "s#path = \"/repo/#path = \"/tmp/mt$S/#" /tmp/vh$S/sim/Cargo.toml
echo "scratch ready: /tmp/mt$S @ $(git -C /tmp/mt$S log --oneline -1)"
