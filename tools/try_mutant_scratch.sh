#!/bin/bash
# usage: tools/try_mutant_scratch.sh <patch.diff> <PROPERTY> [tier]
# Like try_mutant.sh but never touches /repo: applies the patch to the scratch worktree /tmp/mt and runs the checks of
# a scratch copy of /verif in /tmp/vh whose sim/Cargo.toml path dependencies were rewritten from /repo to /tmp/mt.
# (Set up: git -C /repo worktree add --detach /tmp/mt HEAD; git archive HEAD | tar -x -C /tmp/vh; sed -i "s#/repo/#/tmp/mt/#" /tmp/vh/sim/Cargo.toml.)
set -u
S="${SCR:-}"
patch="$1"; prop="$2"; tier="${3:-quick}"
cd /tmp/mt$S || exit 2
git reset -q --hard HEAD
if ! git apply "$patch" 2>/dev/null; then echo "PATCH-DOES-NOT-APPLY $patch"; exit 3; fi
out=$(/tmp/vh$S/check "$prop" "$tier" 2>&1); code=$?
git reset -q --hard HEAD
echo "$out" | grep -E "VIOLATION|violation check|KNOWN|harness|^property=" | head -8
echo "exit=$code"
