#!/usr/bin/env python3
"""Validate MANIFEST.json and evidence/*.json against the schemas (uses the tooling venv)."""
import json, sys, glob
import jsonschema
ok = True
m = json.load(open('/verif/MANIFEST.json')) if glob.glob('/verif/MANIFEST.json') else None
if m is not None:
    try:
        jsonschema.validate(m, json.load(open('/root/.vp/MANIFEST.schema.json')))
        print("MANIFEST.json valid")
    except Exception as e:
        ok = False; print("MANIFEST.json INVALID:", e)
s = json.load(open('/root/.vp/EVIDENCE.schema.json'))
for f in sorted(glob.glob('/verif/evidence/*.json')):
    try:
        jsonschema.validate(json.load(open(f)), s); print(f, "valid")
    except Exception as e:
        ok = False; print(f, "INVALID:", str(e)[:300])
sys.exit(0 if ok else 1)
