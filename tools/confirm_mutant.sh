#!/bin/bash
# usage: tools/confirm_mutant.sh <dir with patch.diff demo.rs README.md> <scratch worktree>
# Confirms in the scratch worktree (at /repo HEAD): patch applies, workspace compiles, existing tests pass with the patch,
# the demo FAILS with the patch and PASSES without it. Prints one RESULT line.
d="$1"; wt="$2"
export CARGO_NET_OFFLINE=true
cd "$wt" || exit 2
git reset -q --hard HEAD; git clean -fdq -e target -e Cargo.lock
demo_path=$(grep -ohE 'flussab(-[a-z0-9]+)?/tests/demo[0-9]*_[a-z0-9_]+\.rs' "$d/README.md" | head -1)
if [ -z "$demo_path" ]; then echo "RESULT $d NO-DEMO-PATH"; exit 1; fi
crate=$(echo "$demo_path" | cut -d/ -f1); tname=$(basename "$demo_path" .rs)
if ! git apply "$d/patch.diff" 2>/dev/null; then echo "RESULT $d PATCH-DOES-NOT-APPLY"; exit 1; fi
if ! cargo test --workspace --no-fail-fast --offline >$wt/../confirm_suite_$$.log 2>&1; then echo "RESULT $d SUITE-FAILS-WITH-PATCH"; git reset -q --hard HEAD; exit 1; fi
npass=$(grep -E "^test result: ok" $wt/../confirm_suite_$$.log | sed -E 's/.*ok\. ([0-9]+) passed.*/\1/' | paste -sd+ | bc)
mkdir -p "$crate/tests"; cp "$d/demo.rs" "$demo_path"
cargo test -p "$crate" --test "$tname" --offline >/tmp/confirm_with.log 2>&1; with=$?
git reset -q --hard HEAD   # removes the patch, keeps the untracked demo
cargo test -p "$crate" --test "$tname" --offline >/tmp/confirm_without.log 2>&1; without=$?
rm -f "$demo_path"
if [ $with -ne 0 ] && [ $without -eq 0 ]; then echo "RESULT $d CONFIRMED suite_passed=$npass demo=$demo_path"; else echo "RESULT $d NOT-CONFIRMED with=$with without=$without suite_passed=$npass"; fi
