#!/bin/bash
# usage: tools/try_mutant.sh <patch.diff> <PROPERTY> [tier]   -- applies the patch to /repo, runs the check, reverts.
set -u
patch="$1"; prop="$2"; tier="${3:-quick}"
cd /repo || exit 2
if [ -n "$(git status --porcelain --untracked-files=no)" ]; then echo "repo dirty"; exit 2; fi
if ! git apply --check "$patch" 2>/dev/null; then
  if ! git apply --3way "$patch" 2>/dev/null; then echo "PATCH-DOES-NOT-APPLY $patch"; git reset -q HEAD -- . ; git checkout -- . ; exit 3; fi
else
  git apply "$patch"
fi
cd /verif
out=$(./check "$prop" "$tier" 2>&1); code=$?
cd /repo && git reset -q HEAD -- . && git checkout -- . && git status --porcelain --untracked-files=no | head -3
echo "$out" | grep -E "VIOLATION|violation check|KNOWN|harness|^property=" | head -8
echo "exit=$code"
