#!/usr/bin/env python3
"""Generates /verif/MANIFEST.json from one table (kept in this file)."""
import json, subprocess
hook_commits = ["6e56b58"]
checks = {
 "C01": dict(cat="exploration", ref="DESIGN.md §4 C01",
   text="Seeded search over (7 parsers x literal types x config flags) x (grammar-valid / mutated / arbitrary inputs) x (constructors, chunk sizes 1..16384) x (read plans down to 1 byte per read, boundary-targeted cuts, Interrupted bursts): the full transcript (items, clean end or error kind, line, column, message) must equal that of the same parser fed by a one-shot source. AIGER section readers also run under early-exit patterns (the caller leaves sections before their end), parsers are also built on an already advanced reader, and a second component (C01g) uses documents with one item of 64..160 MiB. Evidence, not proof: partitions of an input are exponential, they are sampled. The components are additionally executed (smaller cases, separate seeded stream) by the Miri interpreter emulating a big-endian 64-bit target (s390x), a 32-bit target (i686) and aarch64; model violations and undefined behaviour there are violations.",
   note="Differential against the same code under the trivial schedule; trusted: SimSource, std BufReader. A defect that shows under every schedule alike is by construction not reported here (that is C05/C06 territory).",
   tech="deterministic simulation: real parsers over a simulated Read seam with seeded short reads / EINTR / chunk sizes, differential against the one-shot schedule"),
 "C04": dict(cat="fault_enumeration", ref="DESIGN.md §4 C04",
   text="For each sampled (parser, input, constructor, chunking) the fault offset k is enumerated over 0..=len: the source delivers k bytes, then returns a terminal io::Error. Oracle from the source's side: if the failing read was issued the final result must be exactly that I/O error (never clean end, never a syntax error), otherwise the result must equal the fault-free one; items handed out must be a prefix of the fault-free items. The fault axis is swept completely per case; cases are sampled.",
   note="Trusted: SimSource's record of whether the failing read() was issued; the fault-free run of the same parser as reference.",
   tech="deterministic simulation with fault injection: terminal read error injected at every offset of each sampled input, checked against the fault-free run"),
 "C02": dict(cat="exploration", ref="DESIGN.md §4 C02",
   text="Seeded search over operation histories x read schedules x constructors on the real DeferredReader, each checked after every operation against a Vec+cursor reference model (window content, position, mark, flags, parked error, request results); EINTR storms of up to 100000 consecutive Interrupted results, chunk sizes up to 4 MiB; a second component (C02m) streams more than 2^32 bytes through one reader and checks position(), mark() and window content at every record. Evidence, not proof: histories are sampled, not enumerated. The components are additionally executed (smaller cases, separate seeded stream) by the Miri interpreter emulating a big-endian 64-bit target (s390x), a 32-bit target (i686) and aarch64; model violations and undefined behaviour there are violations.",
   note="Trusted: the simulated source's own log (bytes delivered), std's BufReader/Chain/Cursor, the reference model (~100 lines). Both native builds (debug assertions + overflow checks on / off).",
   tech="deterministic simulation: seeded operation histories on the real reader over a simulated Read seam, reference-model refinement check after every step"),
 "C08": dict(cat="exploration", ref="DESIGN.md §4 C08",
   text="Two clauses under seeded constructors, chunk sizes and read plans (locations depend on mark/line bookkeeping that interacts with refills). (a) Range: every SyntaxError of all seven parsers on valid, mutated and arbitrary inputs must lie inside the input. (b) Exact: grammar-valid documents corrupted at one generator-known token with a corruption from an unambiguous catalogue must be rejected on that token's line with the column on the token. Sampled, not exhaustive. The components are additionally executed (smaller cases, separate seeded stream) by the Miri interpreter emulating a big-endian 64-bit target (s390x), a 32-bit target (i686) and aarch64; model violations and undefined behaviour there are violations.",
   note="Trusted: the generators' token spans (validated: every generated document parses to a clean end) and the catalogue's claim that the grammar leaves no other place for the error. Binary AIGER uses the weakened range rule (0x0a bytes in the and-gate section are data).",
   tech="deterministic simulation: real parsers over a simulated Read seam with seeded chunking; absolute range oracle plus generator-known token spans"),
 "C09": dict(cat="exploration", ref="DESIGN.md §4 C09",
   text="Parser level: grammar-valid documents of the six streaming parsers are served by a simulated line-buffered peer that releases the next line only after it has been handed every item completed by the lines released so far; a read() while an item is owed is a deadlock of that protocol (= waiting for bytes beyond the completing line). Reader level: on seeded operation histories the source's call log is checked for exactly one successful read per refill, no read when buffered data suffices, none after EOF/error. The components are additionally executed (smaller cases, separate seeded stream) by the Miri interpreter emulating a big-endian 64-bit target (s390x), a 32-bit target (i686) and aarch64; model violations and undefined behaviour there are violations.",
   note="Trusted: item completion offsets from the generators (validated against the number of handed-out items), the peer, the source log.",
   tech="deterministic simulation: two-party lock-step protocol between a simulated line-buffered producer and the real streaming parsers; read-call accounting on the simulated source"),
 "C10": dict(cat="exploration", ref="DESIGN.md §4 C10",
   text="Seeded streams (never materialised) of 8..128 x the bound are pushed through the real cnf/wcnf/gcnf/btor2/aag/aig streaming parsers under seeded chunk sizes (1..16384) and read-size policies (full, one line per read, one byte, random, Interrupted); a counting allocator with per-thread counters observes the peak live heap at every item; oracle: peak - baseline <= 16*chunk + 32*max_item + 64 KiB, independent of the stream length. Streams contain bursts of up to 2*10^5 consecutive comment-only / blank-only / mixed filler lines. DIMACS streams also contain clauses that are split over lines with up to 2*10^5 filler lines between two of their literals, and BTOR2 streams may end in a malformed justice line that declares millions of conditions (it must be rejected without memory for the declared count). A second component (C10r) does the same for consumers of the raw reader API that keep a fixed look-ahead buffered (request(L) per record, request_byte_at_offset(L-1), or request_more() + buf() only), with max(L, record) in the role of the largest item.",
   note="Trusted: the counting allocator (wraps System), the bound's constants (>= 2x slack over the reader's own policy; a leak must grow by more than 1/8 byte per streamed byte to be seen at the minimum stream length).",
   tech="deterministic simulation: unbounded generated source + counting allocator, peak live heap checked against a stream-length-independent bound at every item"),
 "C11": dict(cat="exploration", ref="DESIGN.md §4 C11",
   text="Seeded search over operation histories x sink behaviours (accept-all, short writes incl. gathering write_vectored, Interrupted incl. storms of up to 100000, Ok(0), errors at any call; the writer may be dropped while the thread unwinds from an unrelated panic) x buffer capacities (0..300 via the verif hook, and the shipped 16 KiB) on the real DeferredWriter, checked step by step against a byte-stream model and the sink's call log; the real format writers are part of the workload. Evidence, not proof. The components are additionally executed (smaller cases, separate seeded stream) by the Miri interpreter emulating a big-endian 64-bit target (s390x), a 32-bit target (i686) and aarch64; model violations and undefined behaviour there are violations.",
   note="Trusted: std::fmt for expected integer text, std::io::Write::write_all, the model. Failing-sink 'selection' clause is a subsequence match over random payload bytes (see evidence assumptions).",
   tech="deterministic simulation: seeded operation histories on the real writer over a simulated Write seam with injected short writes / EINTR / errors, reference byte-stream model"),
 "C14": dict(cat="exploration", ref="DESIGN.md §4 C14",
   text="Operation histories of C02 and C11 extended with crash operations: a refill with a chunk size that cannot be allocated on top of the buffered data (capacity-overflow panic, caught, chunk size set back, reader used again); advance/advance_with_buf past the buffer (documented panic, caught, object used again), sources that claim more bytes than offered or panic, sinks that lie or panic. Oracle 1 (both native builds): after every caught panic the reference model still matches (buf_len checked before buf() is touched), nothing reaches the sink that was not written, and a 64-byte red zone behind every heap block (harness allocator) is intact. Oracle 1b (both native builds): scanner cases and parser drives are executed under several 'poison' bytes that the simulated source scribbles over the unused part of every offered slice; results must not depend on the poison (stale bytes). Oracle 2: the same kinds of histories plus scanner cases (buffered amount aimed at the 8-byte load boundary) and parser drives (tiny btor2/cnf/aag/aig/satlog documents under small chunks) under Miri in 16 parallel interpreter processes; any 'Undefined Behavior' report is a violation. A native part that is killed by a signal is re-run with one worker and the run in progress is reported as C14.crash; a run that never returns is <P>.hang. The components are additionally executed (smaller cases, separate seeded stream) by the Miri interpreter emulating a big-endian 64-bit target (s390x), a 32-bit target (i686) and aarch64; model violations and undefined behaviour there are violations.",
   note="Trusted: Miri (stands in for the AddressSanitizer named in the property and is stricter), the red-zone allocator, the models of C02/C11. Miri runs are few (hundreds per quick run, thousands per thorough run) because the interpreter is slow.",
   tech="deterministic simulation with crash injection (caught panics, lying/panicking Read and Write), reference model after each crash; Miri and allocator red zones as memory oracles"),
 "C13": dict(cat="exploration", ref="DESIGN.md §4 C13",
   text="Seeded search over byte strings x all 12 integer types x both scanner families x scan offsets x every amount of already-buffered data (which selects the 8-byte or the byte-wise path) x read plans for the remainder; the *_multi and the simple variant are both run on a real DeferredReader over the simulated source and compared with a decimal-string reference and with each other. A second component scans whole token streams on ONE reader (tokenizer loop: scan, advance, scan ...), so that state is carried from call to call. The 8-byte kernel is sampled (kernel-sweep mode), the evidence reports how many of the 1969 reachable (digit count, terminator byte) cases were hit. The components are additionally executed (smaller cases, separate seeded stream) by the Miri interpreter emulating a big-endian 64-bit target (s390x), a 32-bit target (i686) and aarch64; model violations and undefined behaviour there are violations.",
   note="Trusted: the decimal-string reference (~40 lines), std's integer Display. Exhaustive enumeration of the kernel is a different technique and is not claimed.",
   tech="deterministic simulation: scanners on the real reader with the buffered amount and refill schedule chosen by the simulator; differential fast-vs-simple plus decimal-string reference"),
 "C16": dict(cat="exploration", ref="DESIGN.md §4 C16",
   text="Seeded search over short strings on a whitespace/newline alphabet x start offsets x helpers x patterns x pre-buffered amounts x read plans (incl. one byte per read) on a real DeferredReader over the simulated source: returned offset against a reference scanner, nothing consumed, and request-minimality read off the source's call log (no read() issued once the deciding byte was delivered; none at all for the empty pattern); plus sessions of up to 60 helper calls on one reader with advances in between. The components are additionally executed (smaller cases, separate seeded stream) by the Miri interpreter emulating a big-endian 64-bit target (s390x), a 32-bit target (i686) and aarch64; model violations and undefined behaviour there are violations.",
   note="Trusted: reference scanner (~50 lines) and the source log. Small space sampled, not enumerated.",
   tech="deterministic simulation: text helpers on the real reader over a simulated Read seam; delivered-byte accounting from the source log"),
}
na = {
 "C03": "pure function of a value/text (write then parse): no schedule, fault, crash point or history occurs in the statement; simulation would only be input generation under another name",
 "C05": "quantified over input byte strings and build modes only; termination/no-panic/allocation is a pure function of the input, nothing for a scheduler or fault injector to decide",
 "C06": "lexical/semantic property of accepted inputs against an independent reading; schedule-free and fault-free",
 "C07": "relates two inputs with the same token sequence; pure function of the input, schedule-free",
 "C12": "graph algorithm on in-memory values; no I/O, no shared state, deterministic hasher",
 "C15": "finite truth table over a pure enum; nothing to schedule or fault",
}
import sys
sel = sys.argv[1:] or list(checks)
m = {
 "version": 1,
 "setup_cmd": "cd /verif/sim && CARGO_NET_OFFLINE=true cargo build --offline --profile simdbg && CARGO_NET_OFFLINE=true cargo build --offline --profile simrel && (RUSTFLAGS='-C target-cpu=native --cfg verif_nat' CARGO_TARGET_DIR=/verif/target/nat CARGO_NET_OFFLINE=true cargo build --offline --profile simrel || true) && (CARGO_NET_OFFLINE=true cargo +nightly miri run --offline --release --quiet --target-dir /verif/target/miri -- miri-noop || true) && for t in s390x-unknown-linux-gnu i686-unknown-linux-gnu aarch64-unknown-linux-gnu; do (CARGO_NET_OFFLINE=true cargo +nightly miri run --offline --release --quiet --target $t --target-dir /verif/target/miri -- miri-noop || true); done",
 "hooks": {
   "guard": "verif-hooks",
   "enable": "cargo feature `verif-hooks` of the flussab crate (off by default); switched on by the path dependency in /verif/sim/Cargo.toml. It only adds DeferredWriter::verif_with_capacity.",
   "baseline_off_cmd": "cd /repo && CARGO_NET_OFFLINE=true cargo test --workspace --no-fail-fast --offline",
   "source_commits": hook_commits,
   "add_only": True,
 },
 "engines": [{"name": "flussab-sim", "path": "/verif/sim", "serves_properties": sorted(checks),
              "kind_free_text": "seeded deterministic simulator owning the Read/Write seams (SimSource, SimSink, line-buffered peer, counting allocator), reference models, minimiser, replay"}],
 "checks": [],
 "not_applicable": [{"property_id": k, "reason": v} for k, v in sorted(na.items())],
 "notes": "See DESIGN.md. Three native builds of the simulator + library are verdict builds: simdbg (debug assertions and overflow checks on), simrel (off), simnat (simrel with -C target-cpu=native, for the scanner/helper/parser components). Exit codes of every command: 0 held, 1 VIOLATION (each replayed in a fresh process first), 2 harness error. VERIF_SEED overrides the fixed default seed.",
}
for pid in sorted(checks):
    c = checks[pid]
    m["checks"].append({
      "property_id": pid,
      "quick_cmd": f"./check {pid} quick",
      "thorough_cmd": f"./check {pid} thorough",
      "evidence_file": f"/verif/evidence/{pid}.json",
      "replay_cmd_template": "./check --replay {path}",
      "engine": "flussab-sim",
      "level_claimed": {"category": c["cat"], "text": c["text"], "design_ref": c["ref"]},
      "level_note": c["note"],
      "technique": c["tech"],
    })
json.dump(m, open('/verif/MANIFEST.json','w'), indent=1)
print("wrote MANIFEST.json with", len(m["checks"]), "checks")
