#!/usr/bin/env python3
"""Assembles /verif/seeded/<id>/ from confirmed mutants and records which checks catch them."""
import json, os, shutil, subprocess, re, sys
RAW='/tmp/mutraw'; REB='/tmp/mutreb'; OUT='/verif/seeded'
rebased={'C01_1','C02_1','C08_3','C10_3'}
confirm={}
for logf in ['/tmp/confirm_all.log']:
    for l in open(logf):
        m=re.match(r'RESULT (\S+) (\S+)(.*)',l)
        if m: confirm[m.group(1)]=(m.group(2),m.group(3).strip())
head=subprocess.run(['git','-C','/repo','log','--oneline','-1'],capture_output=True,text=True).stdout.strip()
only=sys.argv[1:]
for prop in ['C01','C02','C04','C08','C09','C10','C11','C13','C14','C16']:
    for n in ['1','2','3']:
        key=f'{prop}_{n}'; sid=f'{prop}-{n}'
        if only and sid not in only: continue
        src=f'{REB}/{key}' if key in rebased else f'{RAW}/{prop}/{n}'
        dst=f'{OUT}/{sid}'; os.makedirs(dst,exist_ok=True)
        for f in ['patch.diff','demo.rs','README.md']:
            shutil.copy(f'{src}/{f}',f'{dst}/{f}')
        # confirmation (re-run for rebased ones was done by hand; run again here for all to record)
        r=subprocess.run(['/verif/tools/confirm_mutant.sh',src,'/tmp/seedchk'],capture_output=True,text=True)
        conf=r.stdout.strip().splitlines()[-1] if r.stdout.strip() else 'NO OUTPUT'
        # detection by my check
        d=subprocess.run(['/verif/tools/try_mutant.sh',f'{dst}/patch.diff',prop,'quick'],capture_output=True,text=True)
        lines=[l.strip() for l in d.stdout.splitlines()]
        checks=sorted(set(re.findall(r'violation check=(\S+)',d.stdout)))
        code=[l for l in lines if l.startswith('exit=')]
        readme=open(f'{dst}/README.md').read()
        needs=''
        m=re.search(r'(?is)(what is needed[^\n]*\n+|## trigger[^\n]*\n+|\*\*trigger[^\n]*)(.{0,900})',readme)
        if m: needs=(m.group(0)).strip()[:900]
        meta={
          'id':sid,'property':prop,
          'origin':'written by an independent sub-agent that saw only the property text and a scratch worktree of /repo' + (' (patch and/or demo re-based by hand onto the repaired tree, same idea)' if key in rebased else ''),
          'applies_to_repo_head':head,
          'needs_to_manifest':needs or 'see README.md',
          'confirmed':{'how':'tools/confirm_mutant.sh in a scratch worktree at /repo HEAD: patch applies, `cargo test --workspace --no-fail-fast --offline` passes with the patch, the demo fails with the patch and passes without it','result':conf},
          'detected_by':{'command':f'./check {prop} quick (after git -C /repo apply patch.diff; reverted afterwards)','exit':code[0] if code else '?','violation_checks':checks,'first_lines':[l for l in lines if l.startswith('violation check')][:3]},
        }
        json.dump(meta,open(f'{dst}/meta.json','w'),indent=1)
        print(sid,conf.split()[2] if len(conf.split())>2 else conf, code, checks, flush=True)
