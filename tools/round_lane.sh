#!/bin/bash
# usage: tools/round_lane.sh <SCR suffix> <round tag> <PROP:first-id> ...  -- confirms and checks the sub-agent outputs
# /tmp/<tag>out/<PROP>/m1, m2 as seeded/<PROP>-<first-id>, <first-id+1> (scratch copies only; never touches /repo).
scr="$1"; tag="$2"; shift 2
export SCR="$scr" VERIF_NO_MIRI="${VERIF_NO_MIRI:-1}"
export ORIGIN="${ROUND:-tenth} round: written by an independent sub-agent that saw only the property text (statement, quantifier, anchors) and its own scratch worktree of the repaired /repo; nothing from /verif"
for spec in "$@"; do
  p="${spec%%:*}"; n="${spec##*:}"
  for m in m1 m2; do
    d="/tmp/${tag}out/$p/$m"
    [ -f "$d/patch.diff" ] || continue
    CONFIRM_WT="/tmp/${tag}_$p" /verif/tools/add_seeded.py "$d" "$p-$n" "$p"
    n=$((n+1))
  done
done
